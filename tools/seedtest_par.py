#!/usr/bin/env python3
"""seedtest_par.py <src_dir> <seed_id> <prop>
Like seedtest.py, but the patch is applied to a scratch worktree of /repo (VERIF_REPO=<worktree>) instead of /repo itself, so that
several seeds can be examined while other checks run.  Evidence of such runs goes to .cache/evidence_alt/ (never to evidence/)."""
import json, os, re, shutil, subprocess, sys, tempfile

src, sid, prop = sys.argv[1], sys.argv[2], sys.argv[3]
V = "/verif"
env = dict(os.environ, CARGO_NET_OFFLINE="true")
wt = tempfile.mkdtemp(prefix="seedrepo-", dir="/tmp")
os.rmdir(wt)
def sh(cmd, cwd=None, extra=None, timeout=7200):
    r = subprocess.run(cmd, shell=True, cwd=cwd, capture_output=True, text=True, env=dict(env, **(extra or {})), timeout=timeout)
    return r.returncode, r.stdout + r.stderr
try:
    rc, out = sh("git -C /repo worktree add -q --detach %s HEAD" % wt)
    assert rc == 0, out
    rc, out = sh("git apply %s" % os.path.abspath(os.path.join(src, "patch.diff")), cwd=wt)
    assert rc == 0, out
    rc, out = sh("./check %s --tier quick" % prop, cwd=V, extra=dict(VERIF_REPO=wt))
    lines = [l for l in out.splitlines() if l.startswith(("VIOLATION", "INCONCLUSIVE", "PASS", "KNOWN"))]
    verdict = "detected (VIOLATION)" if rc == 1 else "missed (exit 0)" if rc == 0 else "inconclusive (exit %d)" % rc
    print("%s %s" % (sid, verdict))
    for l in lines[:4]:
        print("   > " + l[:260])
finally:
    sh("git -C /repo worktree remove --force %s" % wt)
    shutil.rmtree(wt, ignore_errors=True)
