#!/usr/bin/env python3
"""Regenerates /verif/MANIFEST.json from the tables below (kept in one place so it stays valid)."""
import json, os
V = os.path.dirname(os.path.dirname(os.path.abspath(__file__)))
props = [json.loads(l) for l in open(os.path.join(V, 'properties.jsonl'))]
NA = {
"C01": "Subject is whole Memfs operations over HashMap<PathBuf,_>/HashSet<String> behind Arc<RwLock>; measured: Kani needs ~1 min per hash-map operation and did not finish a 2-call concrete Memfs scenario in 25 min; an own MIR encoder would need a heap model for &mut borrows into map values and hash-set iteration order. DESIGN.md §5.",
"C02": "One side of the comparison is std::fs syscalls (FFI/I/O), which no solver here can execute; the other side is C01's subject. DESIGN.md §5.",
"C03": "Invariant ranges over Memfs' three hash-based indexes; the inductive-step formulation needs a symbolic HashMap pre-state that neither Kani nor the MIR encoder can carry (C01 barrier). DESIGN.md §5.",
"C04": "Concurrency: Kani does not model threads, and any sequentialisation would still have to execute Memfs operations symbolically (C01 barrier). DESIGN.md §5.",
"C05": "abs = expand -> trim_protocol -> clean -> cwd walk on arbitrary strings; symbolic text through these functions did not terminate under Kani for 3 bytes and '~', '$', '://' are sub-component text with no faithful sequence abstraction; only its clean stage is covered (C14). DESIGN.md §5.",
"C06": "Round trips go through Memfs' file map (write/append/sync/_clone_file) or std::fs; C01/C02 barriers. The handle-level buffer semantics are covered under C07. DESIGN.md §5.",
"C08": "Traversal engine is a Vec of Box<dyn Iterator> produced by Box<dyn Fn> over cloned hash maps plus sort_by with boxed comparators; beyond both engines. DESIGN.md §5.",
"C09": "_copy / move_p are worklist loops over hash-set iteration inside Memfs; C01 barrier. DESIGN.md §5.",
"C10": "Every clause is observed through Memfs/Stdfs operations (symlink, readlink, is_*); C01/C02 barriers. Its relative() ingredient is covered under C16, MemfsEntry::follow under C13. DESIGN.md §5.",
"C15": "Laws over arbitrary UTF-8 text (trim_prefix/suffix/ext, mash, has*, trim_protocol, concat): Kani did not terminate on 3 symbolic bytes, and a hand model of String/str/Path byte semantics would verify the model rather than rivia. DESIGN.md §5.",
"C17": "expand is a character scanner over Peekable<Chars> with take_while/collect::<String> and env::var; same text barrier (probe with a 4-valued symbolic environment did not terminate). DESIGN.md §5.",
"C20": "The macros call Memfs/Stdfs operations and signal through panic! with formatted messages; C01 barrier, and 'panics exactly when' needs unwinding, which Kani does not model. DESIGN.md §5.",
}
KANI_TB = "Trusted: Kani codegen, CBMC+CaDiCaL. "
MIR_TB = "Trusted: rustc's MIR printer (nightly), lib/mirsym (parser + interpreter), z3 4.8.12 with every query re-run through cvc5 1.0 and the verdict vectors compared. "
claimed = {
"C07": dict(engine="kani", cat="model_checking", ref="§4 C07", tech="bounded model checking with Kani/CBMC: differential harness vs std::io::Cursor over symbolic op sequences",
  text="Bounded model checking (Kani/CBMC) of the real MemfsFile Read/Seek/Write code against std::io::Cursor compiled into the same harness: every sequence of <=2 (quick) / <=3 (thorough) seek/read steps with full 64-bit offsets over files of <=4 symbolic bytes, every 3-chunking of <=6 bytes with flushes. A differential oracle over all offsets finds the off-by-one/overflow bugs the single in-range test cannot.",
  note=KANI_TB + "Oracle: std::io::Cursor. Handles are built by struct literal as Memfs::read/write/append build them. Outside the claim: persistence into Memfs' HashMap at flush/drop, Stdfs (std::fs::File) handles, files > 4 bytes, > 3 steps."),
"C19": dict(engine="kani", cat="model_checking", ref="§4 C19", tech="bounded model checking with Kani/CBMC over kani::any() indices at full isize width",
  text="Bounded model checking (Kani/CBMC) of the real IteratorExt/OptionExt/PeekableExt/defer code against plain index arithmetic: all lengths 0..=8 with every isize index (full machine width) for slice/drop on three iterator instantiations, all byte contents for the list helpers and take_while_p, all exit shapes to depth 3 for defer.",
  note=KANI_TB + "Oracle: the arithmetic in kani/verif_core.rs. Outside the claim: defer under unwinding (Kani models panic as abort), StringExt::{size,to_bool,trim_suffix} on symbolic text, sequences longer than 8."),
"C12": dict(engine="kani+mirsym", cat="model_checking", ref="§4 C12", tech="solver-decided panic checks: Kani/CBMC's generated overflow/bounds/unwrap checks and mirsym's MIR assert/unwrap obligations over symbolic inputs",
  text="Panic-freedom obligations (arithmetic overflow, slice/index bounds, unwrap, explicit panics, MIR assert terminators) of every encoded unit of the other claimed properties, decided for all inputs within those units' bounds. Partial by construction: it covers the helpers, handles and lexical path functions listed in evidence, not every Memfs method.",
  note="Only the functions listed in evidence.functions_encoded; Memfs methods on arbitrary strings and the byte-offset slicing path helpers are outside the claim (text/hash-map barrier)."),
"C13": dict(engine="mirsym+kani", cat="proof", ref="§4 C13", tech="symbolic execution of the wrappers' MIR with callees as uninterpreted functions; equality obligations discharged by z3 and cvc5",
  text="Every function of `impl VirtualFileSystem for Vfs`, `impl VirtualFileSystem for Stdfs` and `impl Entry for VfsEntry` is executed from its real MIR with both enum arms; the wrapped methods are uninterpreted functions threaded with a world token, so unsat of `result != f_same_name(world, inner, params in order)` and of `world' != w_same_name(...)` shows the wrapper returns and does exactly what the wrapped call does under every possible behaviour of the backends. Loop-free, so no bound. Counterexamples are replayed by a native differential fixture test over all methods.",
  note=MIR_TB + "`<VfsEntry as Entry>::upcast` applied after `follow` is modelled as the identity. Says nothing about the backends themselves, only that the wrappers add and lose nothing. Trait default methods (is_exec, is_symlink_dir, ...) are generic over Self and not part of the wrapper impls."),
"C14": dict(engine="mirsym", cat="model_checking", ref="§4 C14", tech="bounded symbolic execution of clean()'s MIR over symbolic component sequences with std path types as validated sequence models; z3 + cvc5",
  text="The real MIR of sys::clean (with OptionExt::has and is_empty inlined) is executed over every component sequence of length <=5 (quick) / <=8 (thorough) with symbolic kinds and names; obligations per path: result == Go's path.Clean restated on component sequences, idempotence (the MIR is executed again on the result), absoluteness preserved, never empty, no panic, loop bound not hit.",
  note=MIR_TB + "std's Path/PathBuf/Components are represented by bounded sequence models (lib/mirsym/models.py) validated against the real std by a differential native test; the byte-level tokeniser (repeated and trailing separators, inner '.') is std's and enters only through that contract, so a result that differs only in spelling (e.g. 'a/.') is outside the claim."),
"C16": dict(engine="mirsym", cat="model_checking", ref="§4 C16", tech="bounded symbolic execution of relative()'s MIR over pairs of symbolic clean absolute paths; z3 + cvc5",
  text="The real MIR of sys::relative is executed over all ordered pairs of clean absolute paths with <=4 (quick) / <=7 (thorough) components and symbolic names; obligations: clean(base.join(result)) == path, and for path != base the result is '..' x (components of base below the common prefix) followed only by normal components; no panic.",
  note=MIR_TB + "Same sequence models of std path types as C14 (validated natively). Names range over a 3-element alphabet (enough to realise every equality pattern the code can observe through Component::eq)."),
"C11": dict(engine="mirsym+kani", cat="model_checking", ref="§4 C11", tech="bounded symbolic execution of chmod::mode's MIR over symbolic char strings (z3 + cvc5) plus Kani/CBMC on the entry-level mode/owner kernels",
  text="(1) The real MIR of chmod::mode and _pop is executed over every string of <=5 (quick) / <=9 (thorough) arbitrary Unicode scalars and over class-constrained templates of all single and double clauses, for every entry kind, every 16-bit mode and every octal argument; obligations: well-formed clause lists give exactly the mode an independent oracle of the documented grammar computes (each clause applied to the kind it targets), a malformed first clause is an error, the file-type bits are kept, a symlink is never altered, octal takes priority, no panic. (2) Kani decides MemfsEntry::set_mode / MemfsEntryOpts::mode (type bits kept or imposed for every kind and permission value), set_owner (exactly the given ids) and is_exec/is_readonly == mode() masks on Memfs, Stdfs and Vfs entries for every u32.",
  note=MIR_TB + KANI_TB + "Outside the claim: which entries of a tree a recursive/follow/dirs/files chmod or chown visits (Memfs::_chmod/_chown walk hash maps), Stdfs's set_permissions syscall. Multi-character target segments such as 'df:' are left unconstrained (the documentation does not define them)."),
"C18": dict(engine="mirsym", cat="model_checking", ref="§4 C18", tech="symbolic execution of the XDG lookup functions' MIR with env::var as a symbolic environment and paths as uninterpreted-function terms; z3 + cvc5",
  text="The real MIR of user::{config_dir,cache_dir,data_dir,state_dir,runtime_dir,sys_config_dirs,sys_data_dirs,path_dirs,getrids}, sys::{home_dir,parse_paths} and Memfs/Stdfs::config_dir is executed with env::var(NAME) returning a symbolic Option per constant name, list variables split into <=3 (quick) / <=6 (thorough) segments each symbolically empty or not, exists() an arbitrary predicate and uid/gid any u32; each result is compared by the solver with an oracle table written from the XDG text (variable, default suffix, default list, precedence order).",
  note=MIR_TB + "Strings are abstract (literal identity / symbolic id), PathBuf::from, mash, exists and str::parse::<u32> are uninterpreted; 'set' is read literally (a set-but-empty XDG_*_HOME is returned as is); vfs.config_dir is only constrained when XDG_CONFIG_HOME or HOME is set; PATH unset may be an error."),
}
checks = []
for pid in sorted(claimed):
    c = claimed[pid]
    checks.append(dict(property_id=pid, quick_cmd="./check %s --tier quick" % pid, thorough_cmd="./check %s --tier thorough" % pid,
        evidence_file="evidence/%s.json" % pid, replay_cmd_template="./check %s --replay {path}" % pid, engine=c["engine"],
        level_claimed=dict(category=c["cat"], text=c["text"], design_ref=c["ref"]), level_note=c["note"], technique=c["tech"]))
na = [dict(property_id=p["id"], reason=NA.get(p["id"], "not yet built in this revision; planned per DESIGN.md §4")) for p in props if p["id"] not in claimed]
m = dict(version=1, setup_cmd="true",
  hooks=dict(guard="kani", enable="no hook is committed to /repo: checks copy /repo's working tree to a scratch dir and append `#[cfg(kani)] mod verif_*;` there (only `cargo kani` sets cfg(kani)); mirsym reads the nightly compiler's MIR dump of the unmodified sources",
             baseline_off_cmd="cd /repo && cargo test --workspace --no-fail-fast --offline", source_commits=[], add_only=True),
  engines=[dict(name="kani", path="lib/e1.py", serves_properties=["C07", "C11", "C12", "C13", "C19"], kind_free_text="Kani 0.68 / CBMC 6.11 bounded model checking of in-crate harnesses (kani/*.rs) injected into a scratch copy of /repo"),
           dict(name="mirsym", path="lib/mirsym/", serves_properties=["C11", "C12", "C13", "C14", "C16", "C18"], kind_free_text="own forking symbolic executor over rustc's textual MIR (regenerated from /repo each run) emitting SMT-LIB2 queries to z3, cross-checked with cvc5")],
  checks=checks, not_applicable=na,
  notes="Exit codes: 0 held within bounds, 1 VIOLATION (solver counterexample replayed natively), 2 inconclusive. Three genuine defects were repaired in /repo by 'fix:' commits 83b0110, 6ea9caa and e4d4767 (see known_findings.json)")
json.dump(m, open(os.path.join(V, 'MANIFEST.json'), 'w'), indent=1)
print("claimed", sorted(claimed), "n/a", [x["property_id"] for x in na])
