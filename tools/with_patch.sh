#!/bin/bash
# usage: with_patch.sh <patch.diff> <command...>   -- applies the patch to /repo, runs the command, reverts.
set -u
P="$1"; shift
git -C /repo apply "$P" || { echo "patch does not apply"; exit 3; }
"$@"; rc=$?
git -C /repo checkout -- . 
exit $rc
