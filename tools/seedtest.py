#!/usr/bin/env python3
"""seedtest.py <src_dir> <seed_id> <prop> [--no-check]
Validates a seeded change (patch.diff + demo.rs [+ meta.json]) in a scratch worktree of /repo HEAD:
  - demo passes on the unmodified tree, fails with the patch
  - the crate builds and the existing suite still passes (224 passed, only test_user_ids failing)
then applies the patch to /repo, runs ./check <prop> --tier quick, reverts, and stores everything
under /verif/seeded/<seed_id>/ (meta.json records what was run and what the checks said)."""
import json, os, re, shutil, subprocess, sys, tempfile, time

src, sid, prop = sys.argv[1], sys.argv[2], sys.argv[3]
tier = "quick"
for a in sys.argv[4:]:
    if a.startswith("--tier="):
        tier = a.split("=")[1]
V = "/verif"
env = dict(os.environ, CARGO_NET_OFFLINE="true")

def sh(cmd, cwd=None, timeout=3600):
    r = subprocess.run(cmd, shell=True, cwd=cwd, capture_output=True, text=True, env=env, timeout=timeout)
    return r.returncode, r.stdout + r.stderr

wt = tempfile.mkdtemp(prefix="seedwt-", dir="/tmp")
os.rmdir(wt)
meta = {}
if os.path.exists(os.path.join(src, "meta.json")):
    try:
        meta = json.load(open(os.path.join(src, "meta.json")))
    except Exception:
        meta = {}
ran = []
ok = True
try:
    rc, out = sh("git -C /repo worktree add -q --detach %s HEAD" % wt)
    assert rc == 0, out
    os.makedirs(os.path.join(wt, "tests"), exist_ok=True)
    shutil.copy(os.path.join(src, "demo.rs"), os.path.join(wt, "tests", "seed_demo.rs"))
    rc, out = sh("cargo test --offline --test seed_demo -- --test-threads 1 2>&1 | tail -30", cwd=wt)
    m = re.search(r"test result: (\w+)\. (\d+) passed; (\d+) failed", out)
    base_ok = bool(m and m.group(1) == "ok")
    ran.append("unmodified tree: cargo test --test seed_demo -> %s" % (m.group(0) if m else "no result"))
    rc, out = sh("git apply %s" % os.path.abspath(os.path.join(src, "patch.diff")), cwd=wt)
    applies = rc == 0
    ran.append("git apply patch.diff -> %s" % ("ok" if applies else "FAILED: " + out[:200]))
    demo_fails = suite_ok = False
    if applies:
        rc, out = sh("cargo test --offline --test seed_demo -- --test-threads 1 2>&1 | tail -30", cwd=wt)
        m = re.search(r"test result: (\w+)\. (\d+) passed; (\d+) failed", out)
        demo_fails = bool(m and int(m.group(3)) > 0)
        ran.append("with patch: cargo test --test seed_demo -> %s" % (m.group(0) if m else "no result: " + out[-300:]))
        rc, out = sh("cargo test --offline --lib 2>&1 | tail -15", cwd=wt)
        m = re.search(r"test result: \w+\. (\d+) passed; (\d+) failed", out)
        only = re.findall(r"^    (\S+)$", out, re.M)
        suite_ok = bool(m and int(m.group(1)) == 224 and int(m.group(2)) == 1 and "sys::user::tests::test_user_ids" in out)
        ran.append("with patch: cargo test --lib -> %s" % (m.group(0) if m else "no result"))
    ok = base_ok and applies and demo_fails and suite_ok
finally:
    sh("git -C /repo worktree remove --force %s" % wt)
    shutil.rmtree(wt, ignore_errors=True)

verdict = None
if ok and "--no-check" not in sys.argv and "--par" in sys.argv:
    # the patch goes into a scratch worktree that the check reads through VERIF_REPO (evidence of such runs goes to
    # .cache/evidence_alt/, replays are removed afterwards): lets several seeds be examined while other checks use /repo
    wt2 = tempfile.mkdtemp(prefix="seedrepo-", dir="/tmp")
    os.rmdir(wt2)
    try:
        rc, out = sh("git -C /repo worktree add -q --detach %s HEAD" % wt2)
        assert rc == 0, out
        rc, out = sh("git apply %s" % os.path.abspath(os.path.join(src, "patch.diff")), cwd=wt2)
        assert rc == 0, out
        for extra_f in ("Cargo.lock",):  # not tracked by git
            if os.path.exists(os.path.join("/repo", extra_f)) and not os.path.exists(os.path.join(wt2, extra_f)):
                shutil.copy2(os.path.join("/repo", extra_f), os.path.join(wt2, extra_f))
        t0 = time.time()
        env["VERIF_REPO"] = wt2
        rc, out = sh("./check %s --tier %s" % (prop, tier), cwd=V, timeout=7200)
        env.pop("VERIF_REPO")
        lines = [l for l in out.split("\n") if l.startswith(("VIOLATION", "INCONCLUSIVE", "PASS", "KNOWN", "  unit="))]
        verdict = dict(cmd="VERIF_REPO=<worktree of /repo with the patch> ./check %s --tier %s" % (prop, tier), exit=rc, seconds=round(time.time() - t0), lines=[l[:400] for l in lines[:8]])
        ran.append("patch applied in a scratch worktree; VERIF_REPO=<it> ./check %s --tier %s -> exit %d" % (prop, tier, rc))
    finally:
        sh("git -C /repo worktree remove --force %s" % wt2)
        shutil.rmtree(wt2, ignore_errors=True)
elif ok and "--no-check" not in sys.argv:
    rc, out = sh("git -C /repo apply %s" % os.path.abspath(os.path.join(src, "patch.diff")))
    assert rc == 0, out
    evf = os.path.join(V, "evidence", prop + ".json")
    ev_keep = open(evf).read() if os.path.exists(evf) else None
    try:
        t0 = time.time()
        rc, out = sh("./check %s --tier %s" % (prop, tier), cwd=V, timeout=7200)
        lines = [l for l in out.split("\n") if l.startswith(("VIOLATION", "INCONCLUSIVE", "PASS", "KNOWN", "  unit="))]
        verdict = dict(cmd="./check %s --tier %s" % (prop, tier), exit=rc, seconds=round(time.time() - t0), lines=[l[:400] for l in lines[:8]])
        ran.append("git -C /repo apply; ./check %s --tier %s -> exit %d; git -C /repo checkout -- ." % (prop, tier, rc))
    finally:
        sh("git -C /repo checkout -- .")
        # evidence written against a seeded tree must not replace the evidence of the real tree
        if ev_keep is not None:
            open(evf, "w").write(ev_keep)
        # replays produced against a seeded tree are not findings on /repo
        shutil.rmtree(os.path.join(V, "replays", prop), ignore_errors=True)

d = os.path.join(V, "seeded", sid)
os.makedirs(d, exist_ok=True)
shutil.copy(os.path.join(src, "patch.diff"), os.path.join(d, "patch.diff"))
shutil.copy(os.path.join(src, "demo.rs"), os.path.join(d, "demo.rs"))
out_meta = dict(id=sid, property=prop, summary=meta.get("summary", ""), needs=meta.get("needs", ""),
                confirmed=ok, ran=ran, base_commit=subprocess.run("git -C /repo rev-parse --short HEAD", shell=True, capture_output=True, text=True).stdout.strip(),
                check=verdict,
                detected=(verdict is not None and verdict["exit"] == 1),
                outcome=("not confirmed" if not ok else ("detected (VIOLATION)" if verdict and verdict["exit"] == 1 else
                         ("inconclusive (exit 2)" if verdict and verdict["exit"] == 2 else ("missed (exit 0)" if verdict else "not run")))))
json.dump(out_meta, open(os.path.join(d, "meta.json"), "w"), indent=1)
print(sid, "confirmed=%s" % ok, out_meta["outcome"])
for r in ran:
    print("   ", r)
if verdict:
    for l in verdict["lines"]:
        print("   >", l[:200])
