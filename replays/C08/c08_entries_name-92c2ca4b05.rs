// VERIF-E2: property C08 unit c08_entries_name
// failing obligation: C08: the traversal yields exactly the entries the options denote, each once (filter=files sort=name contents_first=True)
// native outcome: {"failed": 1}
use rivia::prelude::*;
use std::collections::BTreeMap;

// reference traversal over a plain tree (std only)
struct Node { path: String, dir: bool, kids: Vec<Node> }
fn build(v: &Memfs, p: &str) -> Node {
    let dir = v.is_dir(p);
    let mut kids = vec![];
    if dir { for k in v.paths(p).unwrap() { kids.push(build(v, k.to_str().unwrap())); } }
    Node { path: p.to_string(), dir, kids }
}
fn visit(n: &Node, depth: usize, emin: usize, emax: usize, filt: &str, sort: &str, cf: bool, out: &mut Vec<String>) {
    let passes = depth >= emin && (filt == "none" || (filt == "dirs") == n.dir);
    if passes && !(cf && n.dir) { out.push(n.path.clone()); }
    if n.dir && depth < emax {
        let mut ks: Vec<&Node> = n.kids.iter().collect();
        ks.sort_by(|a, b| a.path.cmp(&b.path));
        if sort == "dirs_first" { ks.sort_by_key(|k| !k.dir); }
        if sort == "files_first" { ks.sort_by_key(|k| k.dir); }
        for k in ks { visit(k, depth + 1, emin, emax, filt, sort, cf, out); }
    }
    if passes && cf && n.dir { out.push(n.path.clone()); }
}

#[test]
fn replay_entries() {
    // C08: the traversal yields exactly the entries the options denote, each once (filter=files sort=name contents_first=True)
    let v = Memfs::new();
    v.mkdir_p("/D").unwrap();
    v.mkfile("/E").unwrap();
    v.mkdir_p("/F").unwrap();
    v.mkdir_p("/F/D").unwrap();
    v.mkfile("/F/G").unwrap();
    let (m, mx): (usize, usize) = (2, 0);
    let got: Vec<String> = v.entries("/").unwrap().min_depth(2).max_depth(0).files().sort_by_name().contents_first().into_iter().map(|e| e.unwrap().path().to_str().unwrap().to_string()).collect();
    let mut exp = vec![];
    visit(&build(&v, "/"), 0, m, std::cmp::max(m, mx), "files", "name", true, &mut exp);
    let (mut a, mut b) = (got.clone(), exp.clone());
    a.sort(); b.sort();
    assert_eq!(a, b, "C08: yielded set differs from what the options denote (got {:?})", got);
    let pos: BTreeMap<&String, usize> = got.iter().enumerate().map(|(i, p)| (p, i)).collect();
    for p in &got {
        let par = std::path::Path::new(p).parent().map(|x| x.to_str().unwrap().to_string());
        if let Some(par) = par { if let Some(j) = pos.get(&par) { assert!(if true { *j > pos[p] } else { *j < pos[p] }, "C08: parent/content order of {} in {:?}", p, got); } }
    }
    if "name" != "none" { assert_eq!(got, exp, "C08: sorted traversal order"); }
}
