// Public-API demonstration of the two defects repaired by the `fix:` commits in /repo.
// Copy to /repo/tests/demo_fixed_defects.rs of a scratch worktree and `cargo test --test demo_fixed_defects`:
// fails at f5958a6 (before the fixes), passes from 6ea9caa on.
use rivia::prelude::*;

#[test]
fn c19_slice_right_zero() {
    // inclusive range 1..=0 is empty
    assert_eq!(vec![0, 1, 2, 3].into_iter().slice(1, 0).count(), 0);
    // 0..=0 of a two element sequence is the first element only
    assert_eq!(vec![0, 1].into_iter().slice(0, 0).collect::<Vec<_>>(), vec![0]);
    // no overflow panic (dev profile) for the most negative right bound
    assert_eq!(vec![0, 1].into_iter().slice(0, isize::MIN).count(), 0);
}

#[test]
fn c07_seek_before_start_and_read_past_end() {
    let vfs = Memfs::new();
    vfs.write_all("/f", b"abcd").unwrap();
    let mut h = vfs.read("/f").unwrap();
    assert!(h.seek(SeekFrom::Current(-1)).is_err());
    assert_eq!(h.stream_position().unwrap(), 0);
    assert!(h.seek(SeekFrom::End(-5)).is_err());
    assert_eq!(h.seek(SeekFrom::Start(10)).unwrap(), 10);
    let mut b = [0u8; 2];
    assert_eq!(h.read(&mut b).unwrap(), 0);
}
