// VERIF-E2: property C17 unit c17_expand
// failing obligation: C17: expand fails rather than guessing (more than one '~', '~' not at the start, empty variable name, unset variable) (n=1)
// native outcome: {"failed": 1}
use rivia::prelude::*;
#[test]
fn replay_expand() {
    // C17: expand fails rather than guessing (more than one '~', '~' not at the start, empty variable name, unset variable) (n=1)
    std::env::remove_var("HOME");
    let got = sys::expand("$");
    assert!(got.is_err(), "C17: expected an error, got {:?}", got);
}
