// VERIF-E2: property C03 unit c03_mem_move
// failing obligation: C03: every name a directory lists exists (after move_p, cwd /)
// native outcome: {"failed": 1}
use rivia::prelude::*;

fn dump(v: &Memfs) -> String {
    let mut out = String::new();
    let mut paths = v.all_paths("/").unwrap_or_default();
    paths.sort();
    for p in paths {
        let kind = if v.is_symlink(&p) { format!("link->{:?}", v.readlink_abs(&p).ok()) } else if v.is_dir(&p) { "dir".to_string() } else { format!("file{:?}", v.read_all(&p).ok()) };
        out += &format!("{:?} {} {:o} {:?}\n", p, kind, v.mode(&p).unwrap_or(0), v.owner(&p).ok());
    }
    out + &format!("cwd={:?}", v.cwd().ok())
}

// every existing path has an existing real-directory parent that lists it; listings only name existing paths
fn well_formed(v: &Memfs) -> Result<(), String> {
    let all = v.all_paths("/").map_err(|e| e.to_string())?;
    for p in &all {
        let parent = p.parent().ok_or("no parent")?.to_path_buf();
        if !v.is_dir(&parent) || v.is_symlink(&parent) { return Err(format!("parent of {:?} is not a real directory", p)); }
        if !v.paths(&parent).map_err(|e| e.to_string())?.contains(p) { return Err(format!("{:?} is not listed by its parent", p)); }
        if !v.exists(p) { return Err(format!("{:?} is listed but does not exist", p)); }
        if v.is_file(p) && !v.is_symlink(p) && v.read_all(p).is_err() { return Err(format!("regular file {:?} has no content", p)); }
    }
    if !v.cwd().map_err(|e| e.to_string())?.is_absolute() { return Err("cwd is not absolute".into()); }
    Ok(())
}

fn fixture() -> Memfs {
    let v = Memfs::new();
    v.mkdir_p("/a").unwrap();
    v.write_all("/a/b", "x").unwrap();
    v.write_all("/b", "yz").unwrap();
    v
}

#[test]
fn replay_memfs_op() {
    // C03: every name a directory lists exists (after move_p, cwd /)
    let v = fixture();
    v.set_cwd("/").unwrap();
    let before = dump(&v);
    let r = v.move_p("/", "b");
    let failed = format!("{:?}", r).starts_with("Err");
    if let Err(e) = well_formed(&v) {
        panic!("C03: tree not well formed after move_p: {}\n{}", e, dump(&v));
    }
    if failed && true {
        assert_eq!(dump(&v), before, "C01: failed move_p changed the tree");
    }
}
