// VERIF-E2: property C03 unit c01_hist2_symlink_a
// failing obligation: C03: the parent of an entry is a real directory (after mkfile, cwd /, after symlink)
// native outcome: {"failed": 1}
use rivia::prelude::*;

fn dump(v: &Memfs) -> String {
    let mut out = String::new();
    let mut paths = v.all_paths("/").unwrap_or_default();
    paths.sort();
    for p in paths {
        let kind = if v.is_symlink(&p) { format!("link->{:?}", v.readlink_abs(&p).ok()) } else if v.is_dir(&p) { "dir".to_string() } else { format!("file{:?}", v.read_all(&p).ok()) };
        out += &format!("{:?} {} {:o} {:?}\n", p, kind, v.mode(&p).unwrap_or(0), v.owner(&p).ok());
    }
    out + &format!("cwd={:?}
{}", v.cwd().ok(), v)
}

// the complete key sets of the entry map and of the content map, from the Display rendering (lists orphans too)
fn keys(v: &Memfs) -> (Vec<std::path::PathBuf>, Vec<std::path::PathBuf>) {
    let text = format!("{}", v);
    let (mut fs, mut files, mut sect) = (vec![], vec![], 0);
    for l in text.lines() {
        if l == "[fs]:" { sect = 1; continue; }
        if l == "[files]:" { sect = 2; continue; }
        if l.is_empty() { continue; }
        if sect == 1 { fs.push(std::path::PathBuf::from(l.split(" -> ").next().unwrap())); }
        if sect == 2 { files.push(std::path::PathBuf::from(l)); }
    }
    (fs, files)
}

// every stored entry has an existing real-directory parent that lists it; listings only name existing paths;
// exactly the regular non-link files have byte content
fn well_formed(v: &Memfs) -> Result<(), String> {
    let (fs, files) = keys(v);
    let mut all = v.all_paths("/").map_err(|e| e.to_string())?;
    for k in &fs { if k.parent().is_some() && !all.contains(k) { all.push(k.clone()); } }
    for p in &all {
        let parent = p.parent().ok_or("no parent")?.to_path_buf();
        if !v.is_dir(&parent) || v.is_symlink(&parent) { return Err(format!("parent of {:?} is not a real directory", p)); }
        if !v.paths(&parent).map_err(|e| e.to_string())?.contains(p) { return Err(format!("{:?} is not listed by its parent", p)); }
        if !v.exists(p) { return Err(format!("{:?} is listed but does not exist", p)); }
        if v.is_file(p) && !v.is_symlink(p) && !files.contains(p) { return Err(format!("regular file {:?} has no content", p)); }
    }
    for f in &files {
        if !fs.contains(f) || !v.is_file(f) || v.is_symlink(f) { return Err(format!("byte content stored for {:?}, which is not a regular file", f)); }
    }
    if !v.cwd().map_err(|e| e.to_string())?.is_absolute() { return Err("cwd is not absolute".into()); }
    if !v.is_dir("/") { return Err("the root does not exist / is not a directory".into()); }
    Ok(())
}

fn fixture() -> Memfs {
    let v = Memfs::new();
    v.mkdir_p("/a").unwrap();
    v.write_all("/a/b", "x").unwrap();
    v.write_all("/b", "yz").unwrap();
    v
}

fn fixture3() -> Memfs {
    let v = Memfs::new();
    v.mkdir_m("/a", 0o750).unwrap();
    v.write_all("/a/b", "x").unwrap();
    v.chmod("/a/b", 0o600).unwrap();
    v.write_all("/b", "yz").unwrap();
    v.symlink("/a/a", "/b").unwrap();
    v
}

fn fixture5() -> Memfs {
    let v = fixture3();
    v.mkdir_m("/a/ab", 0o700).unwrap();
    v.write_all("/a/ab/b", "q").unwrap();
    v.chmod("/a/ab/b", 0o640).unwrap();
    v
}

fn fixture4() -> Memfs {
    let v = fixture3();
    v.symlink("/ab", "/a/b").unwrap();
    v
}

// A plain reference tree filesystem written from the VirtualFileSystem documentation (std only, no rivia code).
// Paths without '~' and '$' only.
#[derive(Clone, PartialEq, Debug)]
enum N { D, F(String), L(String) }
#[derive(Clone)]
struct RefFs { nodes: std::collections::BTreeMap<String, N>, cwd: String }
impl RefFs {
    fn fixture(cwd: &str) -> RefFs {
        let mut nodes = std::collections::BTreeMap::new();
        nodes.insert("/".to_string(), N::D);
        nodes.insert("/a".to_string(), N::D);
        nodes.insert("/a/b".to_string(), N::F("x".to_string()));
        nodes.insert("/b".to_string(), N::F("yz".to_string()));
        RefFs { nodes, cwd: cwd.to_string() }
    }
    fn resolve_from(base: &str, p: &str) -> Option<String> {
        if p.is_empty() { return None; }
        let full = if p.starts_with('/') { p.to_string() } else { format!("{}/{}", base, p) };
        let mut st: Vec<&str> = vec![];
        for c in full.split('/') {
            match c { "" | "." => {}, ".." => { st.pop(); }, x => st.push(x) }
        }
        Some(format!("/{}", st.join("/")))
    }
    fn resolve(&self, p: &str) -> Option<String> { Self::resolve_from(&self.cwd, p) }
    fn parent(p: &str) -> String { match p.rfind('/') { Some(0) | None => "/".to_string(), Some(i) => p[..i].to_string() } }
    fn base(p: &str) -> String { p[p.rfind('/').unwrap() + 1..].to_string() }
    fn parent_is_dir(&self, p: &str) -> bool { self.nodes.get(&Self::parent(p)) == Some(&N::D) }
    fn has_children(&self, p: &str) -> bool { self.nodes.keys().any(|k| k != p && Self::parent(k) == p && k != "/") }
    fn under(k: &str, p: &str) -> bool { k == p || k.starts_with(&format!("{}/", p.trim_end_matches('/'))) }
    // Ok(true) = succeeded, Ok(false) = failed, Err = outside what the documentation determines
    fn apply(&mut self, op: &str, path: &str, arg2: &str) -> Result<bool, ()> {
        let p = match self.resolve(path) { Some(p) => p, None => return Ok(false) };
        let node = self.nodes.get(&p).cloned();
        match op {
            "mkfile" | "write_all" | "append_all" => {
                match node {
                    Some(N::D) => if p == "/" { Err(()) } else { Ok(false) },
                    Some(N::L(_)) => Err(()),
                    Some(N::F(old)) => {
                        if op == "write_all" { self.nodes.insert(p, N::F(arg2.to_string())); }
                        else if op == "append_all" { self.nodes.insert(p, N::F(old + arg2)); }
                        Ok(true)
                    }
                    None => {
                        if !self.parent_is_dir(&p) { return Ok(false); }
                        self.nodes.insert(p, N::F(if op == "mkfile" { String::new() } else { arg2.to_string() }));
                        Ok(true)
                    }
                }
            }
            "mkdir_p" => {
                let mut cur = String::new();
                let mut made = vec![];
                for c in p.split('/').filter(|c| !c.is_empty()) {
                    cur = format!("{}/{}", cur, c);
                    match self.nodes.get(&cur) { None => made.push(cur.clone()), Some(N::D) => {}, Some(N::L(_)) => return Err(()), Some(_) => return Ok(false) }
                }
                for m in made { self.nodes.insert(m, N::D); }
                Ok(true)
            }
            "remove" => {
                if node.is_none() { return Ok(true); }
                if p == "/" { return Err(()); }
                if node == Some(N::D) && self.has_children(&p) { return Ok(false); }
                self.nodes.remove(&p);
                Ok(true)
            }
            "remove_all" => {
                if p == "/" { return Err(()); }
                self.nodes.retain(|k, _| !Self::under(k, &p));
                Ok(true)
            }
            "set_cwd" => { if node.is_none() { return Ok(false); } self.cwd = p; Ok(true) }
            "symlink" => {
                if p == "/" || node.is_some() { return Err(()); }
                // a relative target is relative to the link's own directory
                let t = match Self::resolve_from(&Self::parent(&p), arg2) { Some(t) => t, None => return Ok(false) };
                if !self.parent_is_dir(&p) { return Ok(false); }
                self.nodes.insert(p, N::L(t));
                Ok(true)
            }
            "copy" => {
                let dst = match self.resolve(arg2) { Some(d) => d, None => return Ok(false) };
                if p == dst { return if node.is_some() { Ok(true) } else { Err(()) }; }
                if node.is_none() { return Ok(false); }
                if p == "/" { return Err(()); }
                let fin = if self.nodes.get(&dst) == Some(&N::D) { format!("{}/{}", dst.trim_end_matches('/'), Self::base(&p)) } else { dst };
                if Self::under(&fin, &p) { return Err(()); }
                let mut cur = String::new();
                let mut made = vec![];
                let comps: Vec<&str> = fin.split('/').filter(|c| !c.is_empty()).collect();
                for c in &comps[..comps.len() - 1] {
                    cur = format!("{}/{}", cur, c);
                    match self.nodes.get(&cur) { None => made.push(cur.clone()), Some(N::D) => {}, Some(_) => return Ok(false) }
                }
                let copied: Vec<(String, N)> = self.nodes.iter().filter(|(k, _)| Self::under(k, &p)).map(|(k, n)| (format!("{}{}", fin, &k[p.len()..]), n.clone())).collect();
                for (k, n) in &copied {
                    match (self.nodes.get(k), n) {
                        (None, _) | (Some(N::F(_)), N::F(_)) | (Some(N::D), N::D) => {}
                        _ => return Err(()),
                    }
                }
                for m in made { self.nodes.insert(m, N::D); }
                for (k, n) in copied { self.nodes.insert(k, n); }
                Ok(true)
            }
            "move_p" => {
                let dst = match self.resolve(arg2) { Some(d) => d, None => return Ok(false) };
                if node.is_none() { return Ok(false); }
                if p == "/" { return Err(()); }
                let fin = if self.nodes.get(&dst) == Some(&N::D) { format!("{}/{}", dst.trim_end_matches('/'), Self::base(&p)) } else { dst };
                if Self::under(&fin, &p) { return Ok(false); }
                if !self.parent_is_dir(&fin) { return Ok(false); }
                match self.nodes.get(&fin) { Some(N::D) | Some(N::L(_)) => return Err(()), _ => { self.nodes.remove(&fin); } }
                let moved: Vec<(String, N)> = self.nodes.iter().filter(|(k, _)| Self::under(k, &p)).map(|(k, n)| (k.clone(), n.clone())).collect();
                for (k, n) in moved {
                    self.nodes.remove(&k);
                    self.nodes.insert(format!("{}{}", fin, &k[p.len()..]), n);
                }
                Ok(true)
            }
            _ => Err(()),
        }
    }
    fn dump(&self) -> String {
        let mut out = String::new();
        for (k, n) in &self.nodes {
            if k == "/" { continue; }
            let (kind, mode) = match n {
                N::D => ("dir".to_string(), 0o40755),
                N::F(d) => (format!("file{:?}", Some(d)), 0o100644),
                N::L(t) => (format!("link->{:?}", Some(std::path::PathBuf::from(t))), 0o120777),
            };
            out += &format!("{:?} {} {:o} {:?}\n", std::path::PathBuf::from(k), kind, mode, Some((1000u32, 1000u32)));
        }
        out + &format!("cwd={:?}", Some(std::path::PathBuf::from(&self.cwd)))
    }
}

#[test]
fn replay_memfs_op() {
    // C03: the parent of an entry is a real directory (after mkfile, cwd /, after symlink)
    let v = std::sync::Arc::new(fixture());
    v.set_cwd("/").unwrap();
    let _ = v.symlink(".b", "/");
    let before = dump(&v);
    // run the call on its own thread: a call that never returns (deadlock) must fail the replay, not hang it
    let (tx, rx) = std::sync::mpsc::channel();
    let v2 = v.clone();
    std::thread::spawn(move || {
        let v = v2;
        let r = v.mkfile(".b/a");
        let _ = tx.send(format!("{:?}", r));
    });
    let r = rx.recv_timeout(std::time::Duration::from_secs(10)).expect("C12: the call did not return within 10 s (deadlock) or panicked");
    let failed = r.starts_with("Err");
    if let Err(e) = well_formed(&v) {
        panic!("C03: tree not well formed after mkfile: {}\n{}", e, dump(&v));
    }
    if failed && true {
        assert_eq!(dump(&v), before, "C01: failed mkfile changed the tree");
    }
    let mut r = RefFs::fixture("/");
    
    let pre_known = true;
    let pre_known = r.apply("symlink", ".b", "/").is_ok();
    if let (true, Ok(ok)) = (pre_known, r.apply("mkfile", ".b/a", "")) {
        assert_eq!(!failed, ok, "C01: mkfile succeeds/fails differently from the reference filesystem");
        if ok {
            assert_eq!(dump(&v).split("
[cwd]").next().unwrap(), r.dump(), "C01: the tree after mkfile differs from the reference filesystem's");
            let (fs, files) = keys(&v);
            assert_eq!(fs.len(), r.nodes.len(), "C01: stored entries differ from the reference filesystem's");
            assert_eq!(files.len(), r.nodes.values().filter(|n| matches!(n, N::F(_))).count(), "C01: stored file contents differ from the reference filesystem's");
        }
    }
}
