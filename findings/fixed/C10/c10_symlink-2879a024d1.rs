// VERIF-E2: property C10 unit c10_symlink
// failing obligation: C10: is_dir(link) is false (link exclusion)
// native outcome: {"failed": 1}
use rivia::prelude::*;

fn dump(v: &Memfs) -> String {
    let mut out = String::new();
    let mut paths = v.all_paths("/").unwrap_or_default();
    paths.sort();
    for p in paths {
        let kind = if v.is_symlink(&p) { format!("link->{:?}", v.readlink_abs(&p).ok()) } else if v.is_dir(&p) { "dir".to_string() } else { format!("file{:?}", v.read_all(&p).ok()) };
        out += &format!("{:?} {} {:o} {:?}\n", p, kind, v.mode(&p).unwrap_or(0), v.owner(&p).ok());
    }
    out + &format!("cwd={:?}", v.cwd().ok())
}

// every existing path has an existing real-directory parent that lists it; listings only name existing paths
fn well_formed(v: &Memfs) -> Result<(), String> {
    let all = v.all_paths("/").map_err(|e| e.to_string())?;
    for p in &all {
        let parent = p.parent().ok_or("no parent")?.to_path_buf();
        if !v.is_dir(&parent) || v.is_symlink(&parent) { return Err(format!("parent of {:?} is not a real directory", p)); }
        if !v.paths(&parent).map_err(|e| e.to_string())?.contains(p) { return Err(format!("{:?} is not listed by its parent", p)); }
        if !v.exists(p) { return Err(format!("{:?} is listed but does not exist", p)); }
        if v.is_file(p) && !v.is_symlink(p) && v.read_all(p).is_err() { return Err(format!("regular file {:?} has no content", p)); }
    }
    if !v.cwd().map_err(|e| e.to_string())?.is_absolute() { return Err("cwd is not absolute".into()); }
    Ok(())
}

fn fixture() -> Memfs {
    let v = Memfs::new();
    v.mkdir_p("/a").unwrap();
    v.write_all("/a/b", "x").unwrap();
    v.write_all("/b", "yz").unwrap();
    v
}

#[test]
fn replay_symlink() {
    // C10: is_dir(link) is false (link exclusion)
    let v = fixture();
    v.set_cwd("/").unwrap();
    let (l, t) = (".b", "/");
    let tkind = (v.is_dir(t), v.is_file(t));
    if v.symlink(l, t).is_err() { return; }
    let tabs = v.abs(t).unwrap();
    assert_eq!(v.readlink_abs(l).unwrap(), tabs, "C10: readlink_abs");
    let rel = v.readlink(l).unwrap();
    assert!(rel.is_relative(), "C10: readlink not relative: {:?}", rel);
    assert_eq!(sys::clean(v.abs(l).unwrap().parent().unwrap().join(&rel)), tabs, "C10: dir(link)/readlink(link)");
    assert!(v.is_symlink(l), "C10: is_symlink");
    assert!(!v.is_file(l), "C10: is_file(link) must be false (link exclusion)");
    assert!(!v.is_dir(l), "C10: is_dir(link) must be false (link exclusion)");
    assert_eq!((v.is_symlink_dir(l), v.is_symlink_file(l)), tkind, "C10: is_symlink_dir / is_symlink_file");
    assert!(v.remove(l).is_ok() && !v.exists(l), "C10: remove(link)");
    assert!(!tkind.0 && !tkind.1 || v.exists(&tabs), "C10: removing the link removed its target");
}
