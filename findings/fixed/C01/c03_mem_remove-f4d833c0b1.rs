// VERIF-E2: property C01 unit c03_mem_remove
// failing obligation: C01: remove succeeds/fails as the reference filesystem does (cwd /)
// native outcome: {"failed": 1}
use rivia::prelude::*;

fn dump(v: &Memfs) -> String {
    let mut out = String::new();
    let mut paths = v.all_paths("/").unwrap_or_default();
    paths.sort();
    for p in paths {
        let kind = if v.is_symlink(&p) { format!("link->{:?}", v.readlink_abs(&p).ok()) } else if v.is_dir(&p) { "dir".to_string() } else { format!("file{:?}", v.read_all(&p).ok()) };
        out += &format!("{:?} {} {:o} {:?}\n", p, kind, v.mode(&p).unwrap_or(0), v.owner(&p).ok());
    }
    out + &format!("cwd={:?}", v.cwd().ok())
}

// every existing path has an existing real-directory parent that lists it; listings only name existing paths
fn well_formed(v: &Memfs) -> Result<(), String> {
    let all = v.all_paths("/").map_err(|e| e.to_string())?;
    for p in &all {
        let parent = p.parent().ok_or("no parent")?.to_path_buf();
        if !v.is_dir(&parent) || v.is_symlink(&parent) { return Err(format!("parent of {:?} is not a real directory", p)); }
        if !v.paths(&parent).map_err(|e| e.to_string())?.contains(p) { return Err(format!("{:?} is not listed by its parent", p)); }
        if !v.exists(p) { return Err(format!("{:?} is listed but does not exist", p)); }
        if v.is_file(p) && !v.is_symlink(p) && v.read_all(p).is_err() { return Err(format!("regular file {:?} has no content", p)); }
    }
    if !v.cwd().map_err(|e| e.to_string())?.is_absolute() { return Err("cwd is not absolute".into()); }
    Ok(())
}

fn fixture() -> Memfs {
    let v = Memfs::new();
    v.mkdir_p("/a").unwrap();
    v.write_all("/a/b", "x").unwrap();
    v.write_all("/b", "yz").unwrap();
    v
}

// A plain reference tree filesystem written from the VirtualFileSystem documentation (std only, no rivia code).
// None = directory, Some(bytes) = regular file; paths without '~' and '$' only.
#[derive(Clone)]
struct RefFs { nodes: std::collections::BTreeMap<String, Option<String>>, cwd: String }
impl RefFs {
    fn fixture(cwd: &str) -> RefFs {
        let mut nodes = std::collections::BTreeMap::new();
        nodes.insert("/".to_string(), None);
        nodes.insert("/a".to_string(), None);
        nodes.insert("/a/b".to_string(), Some("x".to_string()));
        nodes.insert("/b".to_string(), Some("yz".to_string()));
        RefFs { nodes, cwd: cwd.to_string() }
    }
    fn resolve(&self, p: &str) -> Option<String> {
        if p.is_empty() { return None; }
        let full = if p.starts_with('/') { p.to_string() } else { format!("{}/{}", self.cwd, p) };
        let mut st: Vec<&str> = vec![];
        for c in full.split('/') {
            match c { "" | "." => {}, ".." => { st.pop(); }, x => st.push(x) }
        }
        Some(format!("/{}", st.join("/")))
    }
    fn parent(p: &str) -> String { match p.rfind('/') { Some(0) | None => "/".to_string(), Some(i) => p[..i].to_string() } }
    fn parent_is_dir(&self, p: &str) -> bool { self.nodes.get(&Self::parent(p)) == Some(&None) }
    fn has_children(&self, p: &str) -> bool { self.nodes.keys().any(|k| k != p && Self::parent(k) == p && k != "/") }
    // Ok(true) = succeeded, Ok(false) = failed, Err = outside what the documentation determines
    fn apply(&mut self, op: &str, path: &str, data: &str) -> Result<bool, ()> {
        let p = match self.resolve(path) { Some(p) => p, None => return Ok(false) };
        let node = self.nodes.get(&p).cloned();
        match op {
            "mkfile" | "write_all" | "append_all" => {
                match node {
                    Some(None) => if p == "/" { Err(()) } else { Ok(false) },
                    Some(Some(old)) => {
                        if op == "write_all" { self.nodes.insert(p, Some(data.to_string())); }
                        else if op == "append_all" { self.nodes.insert(p, Some(old + data)); }
                        Ok(true)
                    }
                    None => {
                        if !self.parent_is_dir(&p) { return Ok(false); }
                        self.nodes.insert(p, Some(if op == "mkfile" { String::new() } else { data.to_string() }));
                        Ok(true)
                    }
                }
            }
            "mkdir_p" => {
                let mut cur = String::new();
                let mut made = vec![];
                for c in p.split('/').filter(|c| !c.is_empty()) {
                    cur = format!("{}/{}", cur, c);
                    match self.nodes.get(&cur) { None => made.push(cur.clone()), Some(None) => {}, Some(Some(_)) => return Ok(false) }
                }
                for m in made { self.nodes.insert(m, None); }
                Ok(true)
            }
            "remove" => {
                if node.is_none() { return Ok(true); }
                if p == "/" { return Err(()); }
                if node == Some(None) && self.has_children(&p) { return Ok(false); }
                self.nodes.remove(&p);
                Ok(true)
            }
            "remove_all" => {
                if p == "/" { return Err(()); }
                let pre = format!("{}/", p);
                self.nodes.retain(|k, _| k != &p && !k.starts_with(&pre));
                Ok(true)
            }
            "set_cwd" => { if node.is_none() { return Ok(false); } self.cwd = p; Ok(true) }
            _ => Err(()),
        }
    }
    fn dump(&self) -> String {
        let mut out = String::new();
        for (k, n) in &self.nodes {
            let (kind, mode) = match n { None => ("dir".to_string(), 0o40755), Some(d) => (format!("file{:?}", Some(d)), 0o100644) };
            out += &format!("{:?} {} {:o} {:?}
", std::path::PathBuf::from(k), kind, mode, Some((1000u32, 1000u32)));
        }
        out + &format!("cwd={:?}", Some(std::path::PathBuf::from(&self.cwd)))
    }
}

#[test]
fn replay_memfs_op() {
    // C01: remove succeeds/fails as the reference filesystem does (cwd /)
    let v = std::sync::Arc::new(fixture());
    v.set_cwd("/").unwrap();
    let before = dump(&v);
    // run the call on its own thread: a call that never returns (deadlock) must fail the replay, not hang it
    let (tx, rx) = std::sync::mpsc::channel();
    let v2 = v.clone();
    std::thread::spawn(move || {
        let v = v2;
        let r = v.remove("b/a");
        let _ = tx.send(format!("{:?}", r));
    });
    let r = rx.recv_timeout(std::time::Duration::from_secs(10)).expect("C12: the call did not return within 10 s (deadlock) or panicked");
    let failed = r.starts_with("Err");
    if let Err(e) = well_formed(&v) {
        panic!("C03: tree not well formed after remove: {}\n{}", e, dump(&v));
    }
    if failed && true {
        assert_eq!(dump(&v), before, "C01: failed remove changed the tree");
    }
    let mut r = RefFs::fixture("/");
    if let Ok(ok) = r.apply("remove", "b/a", "") {
        assert_eq!(!failed, ok, "C01: remove succeeds/fails differently from the reference filesystem");
        if ok {
            assert_eq!(dump(&v), r.dump(), "C01: the tree after remove differs from the reference filesystem's");
        }
    }
}
