// replay for property C07, harness c07_read_seek_k2 (file kani/verif_file.rs)
// failing check: ""C07: seek to a negative/overflowing position must be an error"" @ src/sys/fs/memfs/verif_file.rs:52:17 in function sys::fs::memfs::verif_file::step
// native replay outcome: {'dev': {'ran': True, 'reproduced': True, 'panic': 'src/sys/fs/memfs/verif_file.rs:52:17: C07: seek to a negative/overflowing position must be an error'}}
// VERIF-HARNESS: verif_file c07_read_seek_k2
/// Test generated for harness `sys::fs::memfs::verif_file::c07_read_seek_k2` 
///
/// Check for `assertion`: ""C07: seek to a negative/overflowing position must be an error""

#[test]
fn kani_concrete_playback_c07_read_seek_k2_14831024416386213024() {
    let concrete_vals: Vec<Vec<u8>> = vec![
        // 0
        vec![0],
        // 0
        vec![0],
        // 0
        vec![0],
        // 0
        vec![0],
        // 4ul
        vec![4, 0, 0, 0, 0, 0, 0, 0],
        // 1
        vec![1],
        // 1
        vec![1],
        // 13
        vec![13, 0, 0, 0, 0, 0, 0, 0],
        // 1
        vec![1],
        // 1
        vec![1],
        // -324259173170675717
        vec![251, 255, 255, 255, 255, 255, 127, 251],
    ];
    kani::concrete_playback_run(concrete_vals, c07_read_seek_k2);
}
