// replay for property C07, harness c07_read_seek_k1 (file kani/verif_file.rs)
// failing check: ""C07: seek to a negative/overflowing position must be an error"" @ src/sys/fs/memfs/verif_file.rs:52:17 in function sys::fs::memfs::verif_file::step
// native replay outcome: {'dev': {'ran': True, 'reproduced': True, 'panic': 'src/sys/fs/memfs/verif_file.rs:52:17: C07: seek to a negative/overflowing position must be an error'}}
// VERIF-HARNESS: verif_file c07_read_seek_k1
/// Test generated for harness `sys::fs::memfs::verif_file::c07_read_seek_k1` 
///
/// Check for `assertion`: ""C07: seek to a negative/overflowing position must be an error""

#[test]
fn kani_concrete_playback_c07_read_seek_k1_3272100961144733778() {
    let concrete_vals: Vec<Vec<u8>> = vec![
        // 255
        vec![255],
        // 255
        vec![255],
        // 255
        vec![255],
        // 255
        vec![255],
        // 0ul
        vec![0, 0, 0, 0, 0, 0, 0, 0],
        // 1
        vec![1],
        // 2
        vec![2],
        // -9223372036854775800
        vec![8, 0, 0, 0, 0, 0, 0, 128],
    ];
    kani::concrete_playback_run(concrete_vals, c07_read_seek_k1);
}
