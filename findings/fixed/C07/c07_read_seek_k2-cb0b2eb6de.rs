// replay for property C07, harness c07_read_seek_k2 (file kani/verif_file.rs)
// failing check: "attempt to subtract with overflow" @ src/sys/fs/memfs/file.rs:22:9 in function sys::fs::memfs::file::MemfsFile::len
// native replay outcome: {'dev': {'ran': True, 'reproduced': True, 'panic': 'src/sys/fs/memfs/file.rs:22:9: attempt to subtract with overflow'}}
// VERIF-HARNESS: verif_file c07_read_seek_k2
/// Test generated for harness `sys::fs::memfs::verif_file::c07_read_seek_k2` 
///
/// Check for `assertion`: "attempt to subtract with overflow"

#[test]
fn kani_concrete_playback_c07_read_seek_k2_6423792296137419897() {
    let concrete_vals: Vec<Vec<u8>> = vec![
        // 3
        vec![3],
        // 3
        vec![3],
        // 3
        vec![3],
        // 3
        vec![3],
        // 2ul
        vec![2, 0, 0, 0, 0, 0, 0, 0],
        // 1
        vec![1],
        // 2
        vec![2],
        // 5259692819131056127
        vec![255, 191, 250, 127, 192, 46, 254, 72],
        // 0
        vec![0],
        // 0ul
        vec![0, 0, 0, 0, 0, 0, 0, 0],
    ];
    kani::concrete_playback_run(concrete_vals, c07_read_seek_k2);
}
