// replay for property C07, harness c07_read_seek_k1 (file kani/verif_file.rs)
// failing check: "attempt to add with overflow" @ src/sys/fs/memfs/file.rs:85:53 in function <sys::fs::memfs::file::MemfsFile as std::io::Seek>::seek
// native replay outcome: {'dev': {'ran': True, 'reproduced': True, 'panic': 'src/sys/fs/memfs/file.rs:85:53: attempt to add with overflow'}}
// VERIF-HARNESS: verif_file c07_read_seek_k1
/// Test generated for harness `sys::fs::memfs::verif_file::c07_read_seek_k1` 
///
/// Check for `assertion`: "attempt to add with overflow"

#[test]
fn kani_concrete_playback_c07_read_seek_k1_747147829689910695() {
    let concrete_vals: Vec<Vec<u8>> = vec![
        // 0
        vec![0],
        // 0
        vec![0],
        // 255
        vec![255],
        // 255
        vec![255],
        // 2ul
        vec![2, 0, 0, 0, 0, 0, 0, 0],
        // 1
        vec![1],
        // 2
        vec![2],
        // 9223372036854775807
        vec![255, 255, 255, 255, 255, 255, 255, 127],
    ];
    kani::concrete_playback_run(concrete_vals, c07_read_seek_k1);
}
