// replay for property C07, harness c07_len_total (file kani/verif_file.rs)
// failing check: "attempt to subtract with overflow" @ src/sys/fs/memfs/file.rs:22:9 in function sys::fs::memfs::file::MemfsFile::len
// native replay outcome: {'dev': {'ran': True, 'reproduced': True, 'panic': 'src/sys/fs/memfs/file.rs:22:9: attempt to subtract with overflow'}}
// VERIF-HARNESS: verif_file c07_len_total
/// Test generated for harness `sys::fs::memfs::verif_file::c07_len_total` 
///
/// Check for `assertion`: "attempt to subtract with overflow"

#[test]
fn kani_concrete_playback_c07_len_total_10884817651994286077() {
    let concrete_vals: Vec<Vec<u8>> = vec![
        // 255
        vec![255],
        // 255
        vec![255],
        // 255
        vec![255],
        // 255
        vec![255],
        // 0ul
        vec![0, 0, 0, 0, 0, 0, 0, 0],
        // 18446744073709551615ul
        vec![255, 255, 255, 255, 255, 255, 255, 255],
    ];
    kani::concrete_playback_run(concrete_vals, c07_len_total);
}
