// VERIF-E2: property C11 unit c11_mode
// failing obligation: C11: symbolic mode == documented grammar applied clause by clause to the targeted kind (L=11)
// native outcome: {"failed": 1}
use rivia::prelude::*;
#[test]
fn replay_chmod_sym() {
    // C11: symbolic mode == documented grammar applied clause by clause to the targeted kind (L=11)
    let vfs = Memfs::new();
    let (p, t) = (PathBuf::from("/p"), PathBuf::from("/t"));
    vfs.mkdir_m(&p, 0o10).unwrap();
    let ty = vfs.mode(&p).unwrap_or(0) & !0o7777;
    let r = vfs.chmod_b(&p).unwrap().sym("f:u-r,d:a-x").exec();
    assert!(r.is_ok(), "C11: well-formed expression rejected: {:?}", r);
    assert_eq!(vfs.mode(&p).unwrap() & 0o7777, 0o0, "C11: permission bits after chmod sym");
    assert_eq!(vfs.mode(&p).unwrap() & !0o7777, ty, "C11: file type bits changed");
}
