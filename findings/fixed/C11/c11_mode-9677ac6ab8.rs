// VERIF-E2: property C11 unit c11_mode
// failing obligation: C11: malformed first clause must be reported as an error (L=1)
// native outcome: {"failed": 1}
use rivia::prelude::*;
#[test]
fn replay_chmod_sym() {
    // C11: malformed first clause must be reported as an error (L=1)
    let vfs = Memfs::new();
    let (p, t) = (PathBuf::from("/p"), PathBuf::from("/t"));
    vfs.mkfile_m(&p, 0o0).unwrap();
    let ty = vfs.mode(&p).unwrap_or(0) & !0o7777;
    let r = vfs.chmod_b(&p).unwrap().sym(":").exec();
    assert!(r.is_err(), "C11: malformed first clause accepted");
    assert_eq!(vfs.mode(&p).unwrap() & 0o7777, 0o0, "C11: failed chmod changed the mode");
    assert_eq!(vfs.mode(&p).unwrap() & !0o7777, ty, "C11: file type bits changed");
}
