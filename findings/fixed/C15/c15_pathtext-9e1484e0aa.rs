// VERIF-E2: property C15 unit c15_pathtext
// failing obligation: C12: sys::trim_suffix panics: byte index is out of range or not a char boundary (str[..end])
// native outcome: {"failed": 1}
use rivia::prelude::*;
#[test]
fn replay_pathtext() {
    // C12: sys::trim_suffix panics: byte index is out of range or not a char boundary (str[..end])
    assert_eq!(sys::trim_suffix("\u{1e000}", ""), PathBuf::from("\u{1e000}"), "C15: trim_suffix");
}
