// VERIF-E2: property C15 unit c15_mash_text
// failing obligation: C15: components of mash(d, p) are those of d followed by those of p without its leading separators (0, 2)
// native outcome: {"failed": 1}
use rivia::prelude::*;
#[test]
fn replay_text_func() {
    // C15: components of mash(d, p) are those of d followed by those of p without its leading separators (0, 2)
    let got: Option<String> = Some(sys::mash("", "//").to_str().unwrap().to_string());
    let want: Option<String> = Some("".to_string());
    let same = match (&got, &want) {
        (Some(a), Some(b)) => PathBuf::from(a).components().filter(|x| *x != Component::CurDir).eq(PathBuf::from(b).components()) && (a.len() <= 1 || !a.ends_with('/')),
        (None, None) => true,
        _ => false,
    };
    assert!(same, "C15: sys::mash{:?}: got {:?}, specification says {:?}", ("", "//"), got, want);
}
