// VERIF-E2: property C15 unit c15_ext_text
// failing obligation: C15: trim_ext(p) + '.' + ext(p) == p (4,)
// native outcome: {"failed": 1}
use rivia::prelude::*;
#[test]
fn replay_text_func() {
    // C15: trim_ext(p) + '.' + ext(p) == p (4,)
    let got: Option<String> = sys::trim_ext("\u{1e000}.\u{1e000}/").map(|x| x.to_str().unwrap().to_string()).ok();
    let want: Option<String> = None;
    let same = match (&got, &want) {
        (Some(a), Some(b)) => PathBuf::from(a).components().eq(PathBuf::from(b).components()),
        (None, None) => true,
        _ => false,
    };
    assert!(same, "C15: sys::trim_ext{:?}: got {:?}, specification says {:?}", ("\u{1e000}.\u{1e000}/"), got, want);
}
