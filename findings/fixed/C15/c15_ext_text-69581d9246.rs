// VERIF-E2: property C15 unit c15_ext_text
// failing obligation: C15: name(p) is base(p) without the extension (3,)
// native outcome: {"failed": 1}
use rivia::prelude::*;
#[test]
fn replay_text_func() {
    // C15: name(p) is base(p) without the extension (3,)
    let got: Option<String> = sys::name("\u{0}./").ok();
    let want: Option<String> = None;
    let same = match (&got, &want) {
        (Some(a), Some(b)) => PathBuf::from(a).components().eq(PathBuf::from(b).components()),
        (None, None) => true,
        _ => false,
    };
    assert!(same, "C15: sys::name{:?}: got {:?}, specification says {:?}", ("\u{0}./"), got, want);
}
