// VERIF-E2: property C15 unit c15_pathtext
// failing obligation: C15: trim_suffix(p, s) removes exactly the given suffix or returns p unchanged (n=2, k=0)
// native outcome: {"failed": 1}
use rivia::prelude::*;
#[test]
fn replay_pathtext() {
    // C15: trim_suffix(p, s) removes exactly the given suffix or returns p unchanged (n=2, k=0)
    assert_eq!(sys::trim_suffix("\u{80}\u{1e000}", ""), PathBuf::from("\u{80}\u{1e000}"), "C15: trim_suffix");
}
