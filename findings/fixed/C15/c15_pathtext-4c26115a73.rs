// VERIF-E2: property C15 unit c15_pathtext
// failing obligation: C15: trim_prefix(p, s) removes exactly the given prefix or returns p unchanged (n=2, k=2)
// native outcome: {"failed": 1}
use rivia::prelude::*;
#[test]
fn replay_pathtext() {
    // C15: trim_prefix(p, s) removes exactly the given prefix or returns p unchanged (n=2, k=2)
    assert_eq!(sys::trim_prefix("\u{80}\u{0}", "\u{80}\u{0}"), PathBuf::from(""), "C15: trim_prefix");
}
