// VERIF-E2: property C15 unit c15_pathtext
// failing obligation: C12: sys::trim_prefix panics: byte index is out of range or not a char boundary (str[start..])
// native outcome: {"failed": 1}
use rivia::prelude::*;
#[test]
fn replay_pathtext() {
    // C12: sys::trim_prefix panics: byte index is out of range or not a char boundary (str[start..])
    assert_eq!(sys::trim_prefix("\u{10000}", "\u{10000}"), PathBuf::from(""), "C15: trim_prefix");
}
