// replay for property C19, harness c19_slice_sliceiter (file kani/verif_core.rs)
// failing check: "attempt to negate with overflow" @ ../../home/runner/.rustup/toolchains/nightly-2026-08-21-x86_64-unknown-linux-gnu/lib/rustlib/src/rust/library/core/src/num/int_macros.rs:3635:17 in function core::num::<impl isize>::abs
// native replay outcome: {'dev': {'ran': True, 'reproduced': True, 'panic': '/home/runner/.rustup/toolchains/nightly-2026-08-21-x86_64-unknown-linux-gnu/lib/rustlib/src/rust/library/core/src/num/mod.rs:559:5: attempt to negate with overflow'}, 'release_like': {'ran': True, 'reproduced': True, 'panic': '/home/runner/.rustup/toolchains/nightly-2026-08-21-x86_64-unknown-linux-gnu/lib/rustlib/src/rust/library/core/src/num/mod.rs:559:5: attempt to negate with overflow'}}
// VERIF-HARNESS: verif_core c19_slice_sliceiter
/// Test generated for harness `verif_core::c19_slice_sliceiter` 
///
/// Check for `assertion`: "attempt to negate with overflow"

#[test]
fn kani_concrete_playback_c19_slice_sliceiter_9947612710163985203() {
    let concrete_vals: Vec<Vec<u8>> = vec![
        // 0ul
        vec![0, 0, 0, 0, 0, 0, 0, 0],
        // 0
        vec![0, 0, 0, 0, 0, 0, 0, 0],
        // -9223372036854775808
        vec![0, 0, 0, 0, 0, 0, 0, 128],
    ];
    kani::concrete_playback_run(concrete_vals, c19_slice_sliceiter);
}
