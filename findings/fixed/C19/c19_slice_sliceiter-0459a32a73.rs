// replay for property C19, harness c19_slice_sliceiter (file kani/verif_core.rs)
// failing check: ""C19: iterator yields an item outside the denoted index range"" @ src/verif_core.rs:88:17 in function verif_core::check_seq::<std::iter::Copied<std::slice::Iter<'_, u8>>>
// native replay outcome: {'dev': {'ran': True, 'reproduced': True, 'panic': 'src/verif_core.rs:88:17: C19: iterator yields an item outside the denoted index range'}, 'release_like': {'ran': True, 'reproduced': True, 'panic': 'src/verif_core.rs:88:17: C19: iterator yields an item outside the denoted index range'}}
// VERIF-HARNESS: verif_core c19_slice_sliceiter
/// Test generated for harness `verif_core::c19_slice_sliceiter` 
///
/// Check for `assertion`: ""C19: iterator yields an item outside the denoted index range""

#[test]
fn kani_concrete_playback_c19_slice_sliceiter_11782236934996769755() {
    let concrete_vals: Vec<Vec<u8>> = vec![
        // 8ul
        vec![8, 0, 0, 0, 0, 0, 0, 0],
        // -2
        vec![254, 255, 255, 255, 255, 255, 255, 255],
        // 0
        vec![0, 0, 0, 0, 0, 0, 0, 0],
    ];
    kani::concrete_playback_run(concrete_vals, c19_slice_sliceiter);
}
