// VERIF-E2: property C04 unit c04_pairs_2
// failing obligation: C04: results and final state of program move_b_c||write_b_x equal those of some sequential order of its calls
// native outcome: {"failed": 1}
use rivia::prelude::*;

fn dump(v: &Memfs) -> String {
    let mut out = String::new();
    let mut paths = v.all_paths("/").unwrap_or_default();
    paths.sort();
    for p in paths {
        let kind = if v.is_symlink(&p) { format!("link->{:?}", v.readlink_abs(&p).ok()) } else if v.is_dir(&p) { "dir".to_string() } else { format!("file{:?}", v.read_all(&p).ok()) };
        out += &format!("{:?} {} {:o} {:?}\n", p, kind, v.mode(&p).unwrap_or(0), v.owner(&p).ok());
    }
    out + &format!("cwd={:?}", v.cwd().ok())
}

// every existing path has an existing real-directory parent that lists it; listings only name existing paths
fn well_formed(v: &Memfs) -> Result<(), String> {
    let all = v.all_paths("/").map_err(|e| e.to_string())?;
    for p in &all {
        let parent = p.parent().ok_or("no parent")?.to_path_buf();
        if !v.is_dir(&parent) || v.is_symlink(&parent) { return Err(format!("parent of {:?} is not a real directory", p)); }
        if !v.paths(&parent).map_err(|e| e.to_string())?.contains(p) { return Err(format!("{:?} is not listed by its parent", p)); }
        if !v.exists(p) { return Err(format!("{:?} is listed but does not exist", p)); }
        if v.is_file(p) && !v.is_symlink(p) && v.read_all(p).is_err() { return Err(format!("regular file {:?} has no content", p)); }
    }
    if !v.cwd().map_err(|e| e.to_string())?.is_absolute() { return Err("cwd is not absolute".into()); }
    Ok(())
}

fn fixture() -> Memfs {
    let v = Memfs::new();
    v.mkdir_p("/a").unwrap();
    v.write_all("/a/b", "x").unwrap();
    v.write_all("/b", "yz").unwrap();
    v
}

#[test]
fn replay_concurrent() {
    // C04: results and final state of program move_b_c||write_b_x equal those of some sequential order of its calls
    let mut allowed: Vec<(Vec<Vec<String>>, String)> = vec![];
    {
        let v = fixture();
        let mut res: Vec<Vec<String>> = vec![vec![]; 2];
        res[0].push(format!("{:?}", v.move_p("/b", "/c").map(|_| String::new())));
        res[1].push(format!("{:?}", v.write_all("/b", "X").map(|_| String::new())));
        allowed.push((res, dump(&v)));
    }
    {
        let v = fixture();
        let mut res: Vec<Vec<String>> = vec![vec![]; 2];
        res[1].push(format!("{:?}", v.write_all("/b", "X").map(|_| String::new())));
        res[0].push(format!("{:?}", v.move_p("/b", "/c").map(|_| String::new())));
        allowed.push((res, dump(&v)));
    }

    for round in 0..20000 {
        let fs = std::sync::Arc::new(fixture());
        let barrier = std::sync::Arc::new(std::sync::Barrier::new(2));
        let mut handles = vec![];
        let v = fs.clone();
        let b = barrier.clone();
        handles.push(std::thread::spawn(move || {
            let mut out: Vec<String> = vec![];
            b.wait();
            out.push(format!("{:?}", v.move_p("/b", "/c").map(|_| String::new())));
            out
        }));
        let v = fs.clone();
        let b = barrier.clone();
        handles.push(std::thread::spawn(move || {
            let mut out: Vec<String> = vec![];
            b.wait();
            out.push(format!("{:?}", v.write_all("/b", "X").map(|_| String::new())));
            out
        }));

        let res: Vec<Vec<String>> = handles.into_iter().map(|h| h.join().expect("C04: a thread panicked")).collect();
        let got = (res, dump(&fs));
        assert!(allowed.contains(&got), "C04: round {}: outcome {:?} is not the outcome of any sequential order {:?}", round, got, allowed);
        if let Err(e) = well_formed(&fs) { panic!("C04: tree not well formed at quiescence: {}", e); }
    }
}
