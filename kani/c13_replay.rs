// Native differential replay for C13 counterexamples (used by the mirsym dispatch jobs and the Kani
// VfsEntry harness): every VirtualFileSystem method is run on a fixture through the wrapper
// (Vfs::Memfs / Vfs::Stdfs, also via upcast) and directly on the wrapped backend; every Entry accessor
// through VfsEntry and directly on the wrapped MemfsEntry / StdfsEntry.  Results and resulting trees
// must be identical.  Run as tests/verif_replay.rs of a scratch copy of /repo with --test-threads 1.
use std::io::{Read, Seek, SeekFrom, Write};

use rivia::prelude::*;

fn norm(s: String, root: &Path) -> String {
    s.replace(root.to_str().unwrap(), "<R>")
}

fn dump<V: VirtualFileSystem>(v: &V, root: &Path) -> String {
    let mut out = String::new();
    let mut paths = v.all_paths(root).unwrap_or_default();
    paths.sort();
    for p in paths {
        let kind = if v.is_symlink(&p) {
            format!("link->{:?}", v.readlink_abs(&p).ok())
        } else if v.is_dir(&p) {
            "dir".to_string()
        } else {
            format!("file{:?}", v.read_all(&p).ok())
        };
        out += &format!("{:?} {} mode={:o} owner={:?}\n", p, kind, v.mode(&p).unwrap_or(0) & 0o7777, v.owner(&p).ok());
    }
    out += &format!("cwd={:?}\n", v.cwd().ok());
    norm(out, root)
}

fn fixture<V: VirtualFileSystem>(v: &V, r: &Path) {
    v.mkdir_p(r.join("d/sub")).unwrap();
    v.write_all(r.join("d/f"), "x\ny\n").unwrap();
    v.write_all(r.join("d/sub/h"), "h").unwrap();
    v.mkfile_m(r.join("d/g"), 0o464).unwrap();
    v.mkfile_m(r.join("d/w"), 0o020).unwrap();
    v.mkfile_m(r.join("d/x"), 0o010).unwrap();
    v.mkdir_m(r.join("e"), 0o750).unwrap();
    v.symlink(r.join("d/l"), r.join("d/f")).unwrap();
    v.symlink(r.join("d/ld"), r.join("d/sub")).unwrap();
    v.symlink(r.join("d/lg"), r.join("d/g")).unwrap();
    v.mkdir_p(r.join("cfg/app")).unwrap();
}

static mut COUNTER: u32 = 0;

fn tmp_root() -> PathBuf {
    let n = unsafe {
        COUNTER += 1;
        COUNTER
    };
    let p = std::env::temp_dir().join(format!("rivia_c13_{}_{}", std::process::id(), n));
    let _ = std::fs::remove_dir_all(&p);
    std::fs::create_dir_all(&p).unwrap();
    p.canonicalize().unwrap()
}

// One operation, evaluated against a filesystem `$v` rooted at `$r`; must evaluate to a String.
macro_rules! ops {
    ($m:ident) => {
        $m!("abs", |v, r| format!("{:?}", v.abs(r.join("d/../d/./f"))));
        $m!("all_dirs", |v, r| format!("{:?}", v.all_dirs(r)));
        $m!("all_files", |v, r| format!("{:?}", v.all_files(r)));
        $m!("all_paths", |v, r| format!("{:?}", v.all_paths(r)));
        $m!("append", |v, r| {
            let mut h = v.append(r.join("d/f")).unwrap();
            h.write_all(b"zz").unwrap();
            h.flush().unwrap();
            "ok".to_string()
        });
        $m!("append_all", |v, r| format!("{:?}", v.append_all(r.join("d/f"), "A")));
        $m!("append_line", |v, r| format!("{:?}", v.append_line(r.join("d/f"), "L")));
        $m!("append_lines", |v, r| format!("{:?}", v.append_lines(r.join("d/f"), &["p", "q"])));
        $m!("append_lines_blank", |v, r| format!("{:?}", v.append_lines(r.join("d/f"), &["p", "", "q", ""])));
        $m!("write_lines_blank", |v, r| format!("{:?}", v.write_lines(r.join("d/f"), &["", "1", "", "2"])));
        $m!("append_line_blank", |v, r| format!("{:?}", v.append_line(r.join("d/f"), "")));
        $m!("chmod", |v, r| format!("{:?}", v.chmod(r.join("d/f"), 0o613)));
        $m!("chmod_b", |v, r| format!("{:?}", v.chmod_b(r.join("d")).unwrap().sym("f:u+x,d:o-rx").exec()));
        $m!("chown", |v, r| format!("{:?}", v.chown(r.join("d/f"), 5, 7)));
        $m!("chown_b", |v, r| format!("{:?}", v.chown_b(r.join("d/sub")).unwrap().owner(9, 11).recurse(true).exec()));
        $m!("config_dir", |v, _r| format!("{:?}", v.config_dir("app")));
        $m!("copy", |v, r| format!("{:?}", v.copy(r.join("d/f"), r.join("e/c"))));
        $m!("copy_b", |v, r| format!("{:?}", v.copy_b(r.join("d/sub"), r.join("e/s")).unwrap().chmod_files(0o600).exec()));
        $m!("cwd", |v, _r| format!("{:?}", v.cwd().map(|_| ())));
        $m!("dirs", |v, r| format!("{:?}", v.dirs(r.join("d"))));
        $m!("entries", |v, r| {
            let mut out = vec![];
            for e in v.entries(r.join("d")).unwrap().sort_by_name().into_iter() {
                out.push(e.unwrap().path_buf());
            }
            format!("{:?}", out)
        });
        $m!("entry", |v, r| {
            let e = v.entry(r.join("d/l")).unwrap();
            format!("{:?} {:?} {:?} {:o} {} {}", e.path(), e.alt(), e.rel(), e.mode(), e.is_symlink(), e.is_file())
        });
        $m!("exists", |v, r| format!("{:?} {:?}", v.exists(r.join("d/f")), v.exists(r.join("d/none"))));
        $m!("files", |v, r| format!("{:?}", v.files(r.join("d"))));
        $m!("gid", |v, r| {
            let _ = v.chown(r.join("d/f"), 5, 7);
            format!("{:?}", v.gid(r.join("d/f")))
        });
        $m!("is_exec", |v, r| format!(
            "{:?} {:?} {:?} {:?} {:?}",
            v.is_exec(r.join("d/x")),
            v.is_exec(r.join("d/f")),
            v.is_exec(r.join("e")),
            v.is_exec(r.join("d/l")),
            v.is_exec(r.join("d/ld"))
        ));
        $m!("is_readonly_links", |v, r| format!("{:?} {:?}", v.is_readonly(r.join("d/lg")), v.is_readonly(r.join("d/l"))));
        $m!("mode_links", |v, r| format!("{:?} {:?}", v.mode(r.join("d/l")).map(|m| m & 0o170000), v.mode(r.join("d/ld")).map(|m| m & 0o170000)));
        $m!("is_dir", |v, r| format!("{:?} {:?} {:?}", v.is_dir(r.join("d")), v.is_dir(r.join("d/f")), v.is_dir(r.join("d/ld"))));
        $m!("is_file", |v, r| format!("{:?} {:?} {:?}", v.is_file(r.join("d")), v.is_file(r.join("d/f")), v.is_file(r.join("d/l"))));
        $m!("is_readonly", |v, r| format!(
            "{:?} {:?} {:?} {:?}",
            v.is_readonly(r.join("d/g")),
            v.is_readonly(r.join("d/w")),
            v.is_readonly(r.join("d/x")),
            v.is_readonly(r.join("d/f"))
        ));
        $m!("is_symlink", |v, r| format!("{:?} {:?}", v.is_symlink(r.join("d/l")), v.is_symlink(r.join("d/f"))));
        $m!("is_symlink_dir", |v, r| format!("{:?} {:?} {:?}", v.is_symlink_dir(r.join("d/l")), v.is_symlink_dir(r.join("d/ld")), v.is_symlink_dir(r.join("d"))));
        $m!("is_symlink_file", |v, r| format!("{:?} {:?} {:?}", v.is_symlink_file(r.join("d/l")), v.is_symlink_file(r.join("d/ld")), v.is_symlink_file(r.join("d/f"))));
        $m!("mkdir_m", |v, r| format!("{:?}", v.mkdir_m(r.join("n/m"), 0o705)));
        $m!("mkdir_p", |v, r| format!("{:?}", v.mkdir_p(r.join("n/p"))));
        $m!("mkfile", |v, r| format!("{:?}", v.mkfile(r.join("d/new"))));
        $m!("mkfile_m", |v, r| format!("{:?}", v.mkfile_m(r.join("d/newm"), 0o604)));
        $m!("mode", |v, r| format!("{:?} {:?}", v.mode(r.join("d/g")), v.mode(r.join("e"))));
        $m!("move_p", |v, r| format!("{:?}", v.move_p(r.join("d/f"), r.join("e"))));
        $m!("owner", |v, r| {
            let _ = v.chown(r.join("d/f"), 5, 7);
            format!("{:?}", v.owner(r.join("d/f")))
        });
        $m!("paths", |v, r| format!("{:?}", v.paths(r.join("d"))));
        $m!("read", |v, r| {
            let mut h = v.read(r.join("d/f")).unwrap();
            let mut s = String::new();
            h.seek(SeekFrom::Start(1)).unwrap();
            h.read_to_string(&mut s).unwrap();
            s
        });
        $m!("read_all", |v, r| format!("{:?}", v.read_all(r.join("d/f"))));
        $m!("read_lines", |v, r| format!("{:?}", v.read_lines(r.join("d/f"))));
        $m!("readlink", |v, r| format!("{:?}", v.readlink(r.join("d/l"))));
        $m!("readlink_abs", |v, r| format!("{:?}", v.readlink_abs(r.join("d/ld"))));
        $m!("remove", |v, r| format!("{:?} {:?}", v.remove(r.join("d/f")), v.remove(r.join("d")).is_err()));
        $m!("remove_all", |v, r| format!("{:?}", v.remove_all(r.join("d"))));
        $m!("root", |v, _r| format!("{:?}", v.root()));
        $m!("set_cwd", |v, r| {
            let old = v.cwd().unwrap();
            let res = format!("{:?} {:?}", v.set_cwd(r.join("d/sub")), v.abs("h"));
            let _ = v.set_cwd(old);
            res
        });
        $m!("symlink", |v, r| format!("{:?}", v.symlink(r.join("e/k"), r.join("d/g"))));
        $m!("uid", |v, r| {
            let _ = v.chown(r.join("d/f"), 5, 7);
            format!("{:?}", v.uid(r.join("d/f")))
        });
        $m!("write", |v, r| {
            let mut h = v.write(r.join("d/f")).unwrap();
            h.write_all(b"W").unwrap();
            h.flush().unwrap();
            "ok".to_string()
        });
        $m!("write_all", |v, r| format!("{:?}", v.write_all(r.join("d/f"), "Q")));
        $m!("write_lines", |v, r| format!("{:?}", v.write_lines(r.join("d/f"), &["1", "2"])));
    };
}

#[test]
fn c13_vfs_memfs_is_transparent() {
    let mut diffs = vec![];
    macro_rules! one {
        ($name:literal, |$v:ident, $r:ident| $body:expr) => {{
            let root = PathBuf::from("/r");
            let direct = Memfs::new();
            let a = {
                let $v = &direct;
                let $r = root.as_path();
                fixture($v, $r);
                let res: String = $body;
                (norm(res, &root), dump($v, &root))
            };
            for via_upcast in [false, true] {
                let inner = Memfs::new();
                let wrapped = if via_upcast { inner.upcast() } else { Vfs::Memfs(inner) };
                let b = {
                    let $v = &wrapped;
                    let $r = root.as_path();
                    fixture($v, $r);
                    let res: String = $body;
                    (norm(res, &root), dump($v, &root))
                };
                if a != b {
                    diffs.push(format!("{} (upcast={}): direct {:?} vs wrapper {:?}", $name, via_upcast, a, b));
                }
            }
        }};
    }
    ops!(one);
    assert!(diffs.is_empty(), "C13: Vfs::Memfs differs from Memfs:\n{}", diffs.join("\n"));
}

#[test]
fn c13_vfs_stdfs_is_transparent() {
    let mut diffs = vec![];
    let keep = std::env::current_dir().unwrap();
    std::env::set_var("XDG_CONFIG_HOME", "/nonexistent-xdg-home");
    macro_rules! one {
        ($name:literal, |$v:ident, $r:ident| $body:expr) => {{
            let root = tmp_root();
            std::env::set_var("XDG_CONFIG_DIRS", root.join("cfg"));
            let direct = Stdfs::new();
            let a = {
                let $v = &direct;
                let $r = root.as_path();
                fixture($v, $r);
                let res: String = $body;
                (norm(res, &root), dump($v, &root))
            };
            let _ = std::fs::remove_dir_all(&root);
            for via_upcast in [false, true] {
                let root = tmp_root();
                std::env::set_var("XDG_CONFIG_DIRS", root.join("cfg"));
                let wrapped = if via_upcast { Stdfs::new().upcast() } else { Vfs::Stdfs(Stdfs::new()) };
                let b = {
                    let $v = &wrapped;
                    let $r = root.as_path();
                    fixture($v, $r);
                    let res: String = $body;
                    (norm(res, &root), dump($v, &root))
                };
                let _ = std::fs::remove_dir_all(&root);
                if a != b {
                    diffs.push(format!("{} (upcast={}): direct {:?} vs wrapper {:?}", $name, via_upcast, a, b));
                }
            }
            std::env::set_current_dir(&keep).unwrap();
        }};
    }
    ops!(one);
    assert!(diffs.is_empty(), "C13: Vfs::Stdfs differs from Stdfs:\n{}", diffs.join("\n"));
}

macro_rules! accessors {
    ($e:expr) => {{
        let e = $e;
        let mut s = format!(
            "{:?}|{:?}|{:?}|{:?}|{:?}|{:?}|{:?}|fol={}|x={}|d={}|f={}|ro={}|l={}|ld={}|lf={}|{:o}",
            e.path(),
            e.path_buf(),
            e.alt(),
            e.alt_buf(),
            e.rel(),
            e.rel_buf(),
            e.file_name(),
            e.following(),
            e.is_exec(),
            e.is_dir(),
            e.is_file(),
            e.is_readonly(),
            e.is_symlink(),
            e.is_symlink_dir(),
            e.is_symlink_file(),
            e.mode()
        );
        for f in [true, false] {
            let g = e.clone().follow(f);
            s += &format!("#follow({})={:?}|{:?}|{}|{}|{}|{:o}", f, g.path(), g.alt(), g.following(), g.is_dir(), g.is_symlink(), g.mode());
            let h = g.follow(f);
            s += &format!("#twice={:?}|{:?}", h.path(), h.alt());
        }
        let u = e.clone().upcast();
        s += &format!("#up={:?}|{:o}|{}", u.path(), u.mode(), u.is_readonly());
        s
    }};
}

fn entry_paths(r: &Path) -> Vec<PathBuf> {
    ["d", "d/f", "d/g", "d/w", "d/x", "d/l", "d/ld", "d/sub", "d/sub/h", "e"].iter().map(|x| r.join(x)).collect()
}

#[test]
fn c13_vfsentry_is_transparent() {
    let mut diffs = vec![];
    // Memfs
    let root = PathBuf::from("/r");
    let m = Memfs::new();
    fixture(&m, &root);
    let s_root = tmp_root();
    let s = Stdfs::new();
    fixture(&s, &s_root);
    for (i, p) in entry_paths(&root).iter().enumerate() {
        for (vfs_entry, what) in [(m.entry(p).unwrap(), "memfs"), (s.entry(&entry_paths(&s_root)[i]).unwrap(), "stdfs")] {
            let via = accessors!(vfs_entry.clone());
            let direct = match vfs_entry {
                VfsEntry::Memfs(x) => accessors!(x),
                VfsEntry::Stdfs(x) => accessors!(x),
            };
            if via != direct {
                diffs.push(format!("{} {:?}: wrapper {} vs direct {}", what, p, via, direct));
            }
        }
    }
    let _ = std::fs::remove_dir_all(&s_root);
    assert!(diffs.is_empty(), "C13: VfsEntry differs from the wrapped entry:\n{}", diffs.join("\n"));
}
