// Kani harnesses for C19 (core iterator / option / peekable / defer helpers) and the C12
// panic-freedom obligations that come with them.  Injected into a scratch copy of /repo as
// `src/verif_core.rs` behind `#[cfg(kani)]`; never part of the ordinary build.
//
// Naming: every harness name starts with the property id it serves; a harness whose name ends in
// `_witness` is a vacuity twin and MUST fail (its final assert(false) must be reachable).
//
// NOTE: do not glob-import crate::prelude here (it shadows `core::` and breaks stub paths).
use crate::core::{defer, IteratorExt, OptionExt, PeekableExt};
use crate::errors::{IterError, RvError};

const N: usize = 8;
const IDX: [u8; N] = [0, 1, 2, 3, 4, 5, 6, 7];

// -------------------------------------------------------------------------------------------
// A second instantiation: an iterator that relies on the *default* `nth`, `nth_back`, `count`
// and `last` (loops over `next` / `next_back`) the way `std::path::Components` does.
// -------------------------------------------------------------------------------------------
#[derive(Clone)]
struct Cnt {
    lo: u8,
    hi: u8, // yields lo..hi
}
impl Iterator for Cnt {
    type Item = u8;
    fn next(&mut self) -> Option<u8> {
        if self.lo < self.hi {
            let x = self.lo;
            self.lo += 1;
            Some(x)
        } else {
            None
        }
    }
}
impl DoubleEndedIterator for Cnt {
    fn next_back(&mut self) -> Option<u8> {
        if self.lo < self.hi {
            self.hi -= 1;
            Some(self.hi)
        } else {
            None
        }
    }
}

// Oracle for slice: plain index arithmetic, written from the property statement.
// Returns (lo, hi) inclusive with lo <= hi, or None when the denoted range is empty.
fn slice_oracle(len: usize, left: isize, right: isize) -> Option<(usize, usize)> {
    let len = len as i128;
    let (l, r) = (left as i128, right as i128);
    let lo = if l < 0 { len + l } else { l };
    let mut hi = if r < 0 { len + r } else { r };
    if hi > len - 1 {
        hi = len - 1;
    }
    if lo < 0 || lo >= len || hi < 0 || lo > hi {
        None
    } else {
        Some((lo as usize, hi as usize))
    }
}

// Oracle for drop: (first index kept, one past last index kept)
fn drop_oracle(len: usize, n: isize) -> (usize, usize) {
    let len_i = len as i128;
    let n = n as i128;
    if n > 0 {
        let k = if n > len_i { len_i } else { n };
        (k as usize, len)
    } else if n < 0 {
        let k = if -n > len_i { len_i } else { -n };
        (0, (len_i - k) as usize)
    } else {
        (0, len)
    }
}

fn check_seq<I: Iterator<Item = u8>>(mut it: I, exp: Option<(usize, usize)>) {
    let mut k: usize = 0;
    while k <= N {
        let x = it.next();
        match exp {
            Some((lo, hi)) if lo + k <= hi => {
                assert!(x == Some((lo + k) as u8), "C19: yielded item differs from the denoted index range");
            }
            _ => {
                assert!(x.is_none(), "C19: iterator yields an item outside the denoted index range");
                return;
            }
        }
        k += 1;
    }
}

#[kani::proof]
#[kani::unwind(11)]
fn c19_slice_sliceiter() {
    let len: usize = kani::any();
    kani::assume(len <= N);
    let left: isize = kani::any();
    let right: isize = kani::any();
    kani::assume(left >= -(len as isize));
    let it = IDX[..len].iter().copied().slice(left, right);
    let exp = slice_oracle(len, left, right);
    kani::cover!(exp.is_some() && right == 0, "slice right==0 non-empty");
    kani::cover!(exp.is_none() && right == 0 && left > 0, "slice right==0 empty");
    kani::cover!(exp.is_some() && right < 0 && left < 0, "slice both negative");
    kani::cover!(exp.is_some() && right > len as isize, "slice right clamped");
    kani::cover!(exp.is_none() && left >= len as isize, "slice left out of bounds");
    check_seq(it, exp);
}

#[kani::proof]
#[kani::unwind(11)]
fn c19_slice_cnt() {
    let len: usize = kani::any();
    kani::assume(len <= N);
    let left: isize = kani::any();
    let right: isize = kani::any();
    kani::assume(left >= -(len as isize));
    // The default nth()/nth_back() loop n times: bound the magnitude so that the loops stay within
    // the unwinding bound (stated bound of this instantiation: |left|, |right| <= len + 1).
    kani::assume(left <= len as isize + 1);
    kani::assume(right >= -(len as isize) - 1 && right <= len as isize + 1);
    let it = Cnt { lo: 0, hi: len as u8 }.slice(left, right);
    let exp = slice_oracle(len, left, right);
    kani::cover!(exp.is_some() && right == 0, "slice right==0 non-empty");
    kani::cover!(exp.is_some() && right < 0 && left < 0, "slice both negative");
    check_seq(it, exp);
}

#[kani::proof]
#[kani::unwind(11)]
fn c19_drop_sliceiter() {
    let len: usize = kani::any();
    kani::assume(len <= N);
    let n: isize = kani::any();
    let it = IDX[..len].iter().copied().drop(n);
    let (a, b) = drop_oracle(len, n);
    kani::cover!(n > 0 && a < b, "drop left, rest non-empty");
    kani::cover!(n < 0 && a < b, "drop right, rest non-empty");
    kani::cover!(n == isize::MIN, "drop isize::MIN");
    kani::cover!(n > len as isize, "drop more than len");
    check_seq(it, if a < b { Some((a, b - 1)) } else { None });
}

#[kani::proof]
#[kani::unwind(12)]
fn c19_drop_cnt() {
    let len: usize = kani::any();
    kani::assume(len <= N);
    let n: isize = kani::any();
    kani::assume(n >= -(len as isize) - 1 && n <= len as isize + 1);
    let it = Cnt { lo: 0, hi: len as u8 }.drop(n);
    let (a, b) = drop_oracle(len, n);
    kani::cover!(n > 0 && a < b, "drop left, rest non-empty");
    kani::cover!(n < 0 && a < b, "drop right, rest non-empty");
    check_seq(it, if a < b { Some((a, b - 1)) } else { None });
}

fn is_iter_err<T>(r: &Result<T, RvError>, which: IterError) -> bool {
    match r {
        Err(RvError::Iter(e)) => *e == which,
        _ => false,
    }
}

#[kani::proof]
#[kani::unwind(11)]
fn c19_list_helpers() {
    let arr: [u8; N] = kani::any();
    let len: usize = kani::any();
    kani::assume(len <= N);
    let s = &arr[..len];

    // first
    let f = s.iter().copied().first();
    assert!(f == if len > 0 { Some(arr[0]) } else { None }, "C19: first");

    // first_result
    let r = s.iter().copied().first_result();
    if len > 0 {
        assert!(matches!(r, Ok(x) if x == arr[0]), "C19: first_result value");
    } else {
        assert!(is_iter_err(&r, IterError::ItemNotFound), "C19: first_result error kind");
    }
    std::mem::forget(r);

    // last_result
    let r = s.iter().copied().last_result();
    if len > 0 {
        assert!(matches!(r, Ok(x) if x == arr[len - 1]), "C19: last_result value");
    } else {
        assert!(is_iter_err(&r, IterError::ItemNotFound), "C19: last_result error kind");
    }
    std::mem::forget(r);

    // single
    let r = s.iter().copied().single();
    if len == 1 {
        assert!(matches!(r, Ok(x) if x == arr[0]), "C19: single value");
    } else if len == 0 {
        assert!(is_iter_err(&r, IterError::ItemNotFound), "C19: single on empty");
    } else {
        assert!(is_iter_err(&r, IterError::MultipleItemsFound), "C19: single on many");
    }
    std::mem::forget(r);

    // some
    assert!(s.iter().some() == (len > 0), "C19: some");

    // consume
    let mut c = s.iter().consume();
    assert!(c.next().is_none(), "C19: consume leaves items");

    kani::cover!(len == 0, "empty");
    kani::cover!(len == 1, "singleton");
    kani::cover!(len == N, "full");
}

#[kani::proof]
#[kani::unwind(11)]
fn c19_list_helpers_cnt() {
    let len: u8 = kani::any();
    kani::assume(len as usize <= N);
    let mk = || Cnt { lo: 0, hi: len };
    assert!(mk().first() == if len > 0 { Some(0) } else { None }, "C19: first");
    let r = mk().last_result();
    if len > 0 {
        assert!(matches!(r, Ok(x) if x == len - 1), "C19: last_result value");
    } else {
        assert!(is_iter_err(&r, IterError::ItemNotFound), "C19: last_result error kind");
    }
    std::mem::forget(r);
    let r = mk().single();
    if len == 1 {
        assert!(matches!(r, Ok(0)), "C19: single value");
    } else if len == 0 {
        assert!(is_iter_err(&r, IterError::ItemNotFound), "C19: single on empty");
    } else {
        assert!(is_iter_err(&r, IterError::MultipleItemsFound), "C19: single on many");
    }
    std::mem::forget(r);
    assert!(mk().some() == (len > 0), "C19: some");
    let mut c = mk().consume();
    assert!(c.next().is_none(), "C19: consume leaves items");
    kani::cover!(len == 0, "empty");
    kani::cover!(len as usize == N, "full");
}

#[kani::proof]
fn c19_option_has() {
    let o: Option<u32> = kani::any();
    let v: u32 = kani::any();
    let exp = match o {
        Some(y) => y == v,
        None => false,
    };
    assert!(o.has(v) == exp, "C19: Option::has is equality with the contained value");
    kani::cover!(o.is_none(), "none");
    kani::cover!(exp, "equal");
    kani::cover!(o.is_some() && !exp, "different");
}

#[kani::proof]
#[kani::unwind(9)]
fn c19_take_while_p() {
    const M: usize = 6;
    let arr: [u8; M] = kani::any();
    let len: usize = kani::any();
    kani::assume(len <= M);
    let t: u8 = kani::any();
    // longest prefix satisfying x < t
    let mut p = 0;
    while p < len && arr[p] < t {
        p += 1;
    }
    let mut it = arr[..len].iter().copied().peekable();
    {
        let mut tw = it.take_while_p(|&x| x < t);
        let mut k = 0;
        while k < p {
            assert!(tw.next() == Some(arr[k]), "C19: take_while_p prefix item");
            k += 1;
        }
        assert!(tw.next().is_none(), "C19: take_while_p yields past the prefix");
        // asking again must not consume the failing item either
        assert!(tw.next().is_none(), "C19: take_while_p yields past the prefix (2nd)");
    }
    if p < len {
        assert!(it.peek() == Some(&arr[p]), "C19: first failing item was consumed");
        assert!(it.next() == Some(arr[p]), "C19: first failing item was consumed");
    } else {
        assert!(it.next().is_none(), "C19: items left after full prefix");
    }
    kani::cover!(p == 0 && len > 0, "fails at once");
    kani::cover!(p == len && len == M, "all pass");
    kani::cover!(p > 0 && p < len, "stops in the middle");
}

#[kani::proof]
#[kani::unwind(9)]
fn c19_take_while_p_fold() {
    const M: usize = 6;
    let arr: [u8; M] = kani::any();
    let len: usize = kani::any();
    kani::assume(len <= M);
    let t: u8 = kani::any();
    let mut p = 0;
    while p < len && arr[p] < t {
        p += 1;
    }
    let mut it = arr[..len].iter().copied().peekable();
    // fold is overridden by rivia: count and checksum of the yielded prefix
    let (cnt, sum) = it.take_while_p(|&x| x < t).fold((0usize, 0u32), |(c, s), x| (c + 1, s.wrapping_mul(31).wrapping_add(x as u32)));
    let mut es = 0u32;
    let mut k = 0;
    while k < p {
        es = es.wrapping_mul(31).wrapping_add(arr[k] as u32);
        k += 1;
    }
    assert!(cnt == p && sum == es, "C19: take_while_p fold differs from the longest prefix");
    assert!(it.next() == if p < len { Some(arr[p]) } else { None }, "C19: first failing item was consumed (fold)");
    kani::cover!(p > 0 && p < len, "stops in the middle");
}

// defer ----------------------------------------------------------------------------------------
// A log of which guard ran at which position; guards are created in order 0,1,2 at nesting depth
// 1,2,3; `exit` decides where the function returns early.
struct Log {
    n: core::cell::Cell<u8>,
    at: [core::cell::Cell<u8>; 3], // position at which guard i ran (0 = never), counted from 1
    runs: [core::cell::Cell<u8>; 3],
}
impl Log {
    fn hit(&self, i: usize) {
        self.n.set(self.n.get() + 1);
        self.at[i].set(self.n.get());
        self.runs[i].set(self.runs[i].get() + 1);
    }
}

fn defer_body(log: &Log, exit: u8, depth: u8) -> u8 {
    let _g0 = defer(|| log.hit(0));
    if exit == 0 {
        return 0;
    }
    if depth >= 2 {
        let _g1 = defer(|| log.hit(1));
        if exit == 1 {
            return 1;
        }
        if depth >= 3 {
            let _g2 = defer(|| log.hit(2));
            if exit == 2 {
                return 2;
            }
            // nothing may have run while all scopes are still open
            assert!(log.n.get() == 0, "C19: defer ran before its scope ended");
        }
        // inner scope closed: guard 2 must have run by now if it was created
        if depth >= 3 {
            assert!(log.runs[2].get() == 1, "C19: defer did not run at scope end");
        }
    }
    3
}

#[kani::proof]
#[kani::unwind(4)]
fn c19_defer() {
    let log = Log { n: Default::default(), at: Default::default(), runs: Default::default() };
    let exit: u8 = kani::any();
    let depth: u8 = kani::any();
    kani::assume(depth >= 1 && depth <= 3);
    let r = defer_body(&log, exit, depth);
    // which guards were created before the exit point (r = level of the early return, 3 = none)
    let created = |i: u8| -> bool { i == 0 || (i < depth && r >= i) };
    let mut ncreated = 0u8;
    let mut i = 0u8;
    while i < 3 {
        if created(i) {
            ncreated += 1;
            assert!(log.runs[i as usize].get() == 1, "C19: defer closure did not run exactly once");
        } else {
            assert!(log.runs[i as usize].get() == 0, "C19: defer closure ran without being created");
        }
        i += 1;
    }
    assert!(log.n.get() == ncreated, "C19: number of defer runs");
    // reverse order of creation: a later-created guard ran earlier
    if created(0) && created(1) {
        assert!(log.at[1].get() < log.at[0].get(), "C19: defer order not reverse of creation");
    }
    if created(1) && created(2) {
        assert!(log.at[2].get() < log.at[1].get(), "C19: defer order not reverse of creation");
    }
    kani::cover!(r == 3 && depth == 3, "fallthrough depth 3");
    kani::cover!(r == 1 && depth == 3, "early return at depth 2");
    kani::cover!(r == 2, "early return at depth 3");
    kani::cover!(r == 0, "early return at depth 1");
}

// The macro form used by callers: `defer!(expr)`.
fn defer_macro_body(c: &core::cell::Cell<u32>, early: bool) -> u32 {
    defer!(c.set(c.get() * 2 + 1));
    defer!(c.set(c.get() * 2));
    if early {
        return c.get();
    }
    c.set(c.get() + 5);
    c.get()
}

#[kani::proof]
fn c19_defer_macro() {
    let start: u8 = kani::any();
    let early: bool = kani::any();
    let c = core::cell::Cell::new(start as u32);
    let seen = defer_macro_body(&c, early);
    let base = if early { start as u32 } else { start as u32 + 5 };
    assert!(seen == base, "C19: defer! ran before scope end");
    // second-created runs first: x -> 2x, then first-created: -> 2(2x)+1
    assert!(c.get() == (base * 2) * 2 + 1, "C19: defer! order / count");
    kani::cover!(early, "early");
    kani::cover!(!early, "fallthrough");
}

// Vacuity twins --------------------------------------------------------------------------------
#[kani::proof]
#[kani::unwind(11)]
fn c19_slice_witness() {
    let len: usize = kani::any();
    kani::assume(len <= N);
    let left: isize = kani::any();
    let right: isize = kani::any();
    kani::assume(left >= -(len as isize));
    kani::assume(right != isize::MIN);
    let mut it = IDX[..len].iter().copied().slice(left, right);
    let _ = it.next();
    assert!(false, "witness: end of harness reachable");
}

#[kani::proof]
#[kani::unwind(4)]
fn c19_defer_witness() {
    let log = Log { n: Default::default(), at: Default::default(), runs: Default::default() };
    let exit: u8 = kani::any();
    let _ = defer_body(&log, exit, 3);
    assert!(false, "witness: end of harness reachable");
}

// A third instantiation: an adapter with an *inexact* size_hint (Filter), so that helpers must not
// trust size_hint for the length.  The kept indices are chosen by a symbolic bit mask.
fn kept(n: usize, mask: u8) -> ([u8; N], usize) {
    let mut out = [0u8; N];
    let mut k = 0;
    let mut i = 0;
    while i < n {
        if (mask >> i) & 1 == 1 {
            out[k] = i as u8;
            k += 1;
        }
        i += 1;
    }
    (out, k)
}

fn check_list<I: Iterator<Item = u8>>(mut it: I, vals: &[u8; N], exp: Option<(usize, usize)>) {
    let mut k: usize = 0;
    while k <= N {
        let x = it.next();
        match exp {
            Some((lo, hi)) if lo + k <= hi => {
                assert!(x == Some(vals[lo + k]), "C19: yielded item differs from the denoted index range");
            }
            _ => {
                assert!(x.is_none(), "C19: iterator yields an item outside the denoted index range");
                return;
            }
        }
        k += 1;
    }
}

#[kani::proof]
#[kani::unwind(11)]
fn c19_slice_filter5() {
    slice_filter(5);
}

fn slice_filter(nmax: usize) {
    let n: usize = kani::any();
    kani::assume(n <= nmax);
    let mask: u8 = kani::any();
    let (vals, len) = kept(n, mask);
    let left: isize = kani::any();
    let right: isize = kani::any();
    kani::assume(left >= -(len as isize));
    kani::assume(left <= len as isize + 1);
    kani::assume(right >= -(len as isize) - 1 && right <= len as isize + 1);
    let it = IDX[..n].iter().copied().filter(move |x| (mask >> *x) & 1 == 1).slice(left, right);
    let exp = slice_oracle(len, left, right);
    kani::cover!(exp.is_some() && len < n && left < 0, "negative left on a filtered sequence");
    kani::cover!(exp.is_some() && len < n && right >= 0, "right bound inside a filtered sequence");
    check_list(it, &vals, exp);
}

#[kani::proof]
#[kani::unwind(12)]
fn c19_drop_filter5() {
    drop_filter(5);
}

fn drop_filter(nmax: usize) {
    let n: usize = kani::any();
    kani::assume(n <= nmax);
    let mask: u8 = kani::any();
    let (vals, len) = kept(n, mask);
    let d: isize = kani::any();
    kani::assume(d >= -(len as isize) - 1 && d <= len as isize + 1);
    let it = IDX[..n].iter().copied().filter(move |x| (mask >> *x) & 1 == 1).drop(d);
    let (a, b) = drop_oracle(len, d);
    kani::cover!(d < 0 && a < b && len < n, "drop right on a filtered sequence");
    check_list(it, &vals, if a < b { Some((a, b - 1)) } else { None });
}

// A fourth instantiation: default methods plus a legal but *inexact* size_hint (upper bound larger
// than the number of items by a symbolic slack), cheap enough for the quick tier.
#[derive(Clone)]
struct CntHint {
    lo: u8,
    hi: u8,
    slack: usize,
}
impl Iterator for CntHint {
    type Item = u8;
    fn next(&mut self) -> Option<u8> {
        if self.lo < self.hi {
            let x = self.lo;
            self.lo += 1;
            Some(x)
        } else {
            None
        }
    }
    fn size_hint(&self) -> (usize, Option<usize>) {
        (0, Some((self.hi - self.lo) as usize + self.slack))
    }
}
impl DoubleEndedIterator for CntHint {
    fn next_back(&mut self) -> Option<u8> {
        if self.lo < self.hi {
            self.hi -= 1;
            Some(self.hi)
        } else {
            None
        }
    }
}

#[kani::proof]
#[kani::unwind(14)]
fn c19_slice_inexact_hint() {
    let len: usize = kani::any();
    kani::assume(len <= N);
    let slack: usize = kani::any();
    kani::assume(slack <= 3);
    let left: isize = kani::any();
    let right: isize = kani::any();
    kani::assume(left >= -(len as isize));
    kani::assume(left <= len as isize + 1);
    kani::assume(right >= -(len as isize) - 1 && right <= len as isize + 1);
    let it = CntHint { lo: 0, hi: len as u8, slack }.slice(left, right);
    let exp = slice_oracle(len, left, right);
    kani::cover!(exp.is_some() && slack > 0 && left < 0, "negative left with slack");
    kani::cover!(exp.is_some() && slack > 0 && right >= 0 && (right as usize) < len, "in-range right with slack");
    check_seq(it, exp);
}

#[kani::proof]
#[kani::unwind(14)]
fn c19_drop_inexact_hint() {
    let len: usize = kani::any();
    kani::assume(len <= N);
    let slack: usize = kani::any();
    kani::assume(slack <= 3);
    let n: isize = kani::any();
    kani::assume(n >= -(len as isize) - 1 && n <= len as isize + 1);
    let it = CntHint { lo: 0, hi: len as u8, slack }.drop(n);
    let (a, b) = drop_oracle(len, n);
    kani::cover!(n < 0 && a < b && slack > 0, "drop right with slack");
    check_seq(it, if a < b { Some((a, b - 1)) } else { None });
}
