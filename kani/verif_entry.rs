// Kani harnesses for the entry-level integer kernels:
//   C11: MemfsEntryOpts::mode / MemfsEntry::set_mode keep or impose the file-type bits, set_owner
//        changes exactly the given ids, Entry::is_exec / is_readonly agree with mode();
//   C13: every Entry accessor through VfsEntry equals the accessor on the wrapped entry (including
//        the trait's default methods, which are not part of the wrapper impl), follow(true) swaps
//        path and alt exactly once.
// Injected as `src/sys/fs/memfs/verif_entry.rs` behind `#[cfg(kani)]` (private fields are needed).
// Entries are built by struct literal with `files: None` (a HashSet would drag RandomState in);
// paths are concrete and of pairwise different lengths, all flags / modes / ids are symbolic.
use std::path::PathBuf;

use super::entry::MemfsEntry;
use crate::sys::{Entry, StdfsEntry, VfsEntry};

fn any_memfs_entry() -> MemfsEntry {
    MemfsEntry {
        path: PathBuf::from("/p"),
        alt: PathBuf::from("/al"),
        rel: PathBuf::from("rel"),
        dir: kani::any(),
        file: kani::any(),
        link: kani::any(),
        mode: kani::any(),
        uid: kani::any(),
        gid: kani::any(),
        follow: kani::any(),
        cached: kani::any(),
        files: None,
    }
}

fn any_stdfs_entry() -> StdfsEntry {
    StdfsEntry {
        path: PathBuf::from("/p"),
        alt: PathBuf::from("/al"),
        rel: PathBuf::from("rel"),
        dir: kani::any(),
        file: kani::any(),
        link: kani::any(),
        mode: kani::any(),
        follow: kani::any(),
        cached: kani::any(),
    }
}

fn plen(p: &std::path::Path) -> usize {
    p.as_os_str().len()
}

// ---------------------------------------------------------------------------------------------
// C11 kernels
// ---------------------------------------------------------------------------------------------
fn type_bits(dir: bool, file: bool, link: bool) -> u32 {
    if link {
        0o120000
    } else if file {
        0o100000
    } else if dir {
        0o40000
    } else {
        0
    }
}

#[kani::proof]
fn c11_set_mode_keeps_type_bits() {
    let mut e = any_memfs_entry();
    let (dir, file, link) = (e.dir, e.file, e.link);
    let m: u32 = kani::any();
    kani::assume(m <= 0o7777); // a permission value, as chmod passes it
    e.set_mode(Some(m));
    let ty = type_bits(dir, file, link);
    assert!(e.mode & 0o7777 == m, "C11: set_mode does not store exactly the requested permission bits");
    assert!(e.mode & !0o7777 == ty, "C11: set_mode does not impose the entry's file-type bits");
    assert!(e.dir == dir && e.file == file && e.link == link, "C11: set_mode changed the entry kind");
    assert!(e.mode() == e.mode, "C11: mode() accessor");
    kani::cover!(link, "link");
    kani::cover!(file && !link, "file");
    kani::cover!(dir && !file && !link, "dir");
    std::mem::forget(e);
}

#[kani::proof]
fn c11_set_mode_default() {
    let mut e = any_memfs_entry();
    let (dir, file, link) = (e.dir, e.file, e.link);
    e.set_mode(None);
    let want = if link {
        0o120777
    } else if file {
        0o100644
    } else if dir {
        0o40755
    } else {
        0o40755
    };
    // an entry that is none of dir/file/link gets the directory default without type bits imposed
    if link || file || dir {
        assert!(e.mode == want, "C11: default mode for the entry kind");
    }
    std::mem::forget(e);
}

#[kani::proof]
fn c11_set_owner_exact() {
    let mut e = any_memfs_entry();
    let (u0, g0, m0) = (e.uid, e.gid, e.mode);
    let uid: Option<u32> = kani::any();
    let gid: Option<u32> = kani::any();
    e.set_owner(uid, gid);
    assert!(e.uid == uid.unwrap_or(u0), "C11: chown uid");
    assert!(e.gid == gid.unwrap_or(g0), "C11: chown gid");
    assert!(e.mode == m0, "C11: chown changed the mode");
    kani::cover!(uid.is_some() && gid.is_none(), "uid only");
    kani::cover!(uid.is_none() && gid.is_some(), "gid only");
    std::mem::forget(e);
}

#[kani::proof]
fn c11_exec_readonly_agree_with_mode() {
    let m = any_memfs_entry();
    assert!(m.is_exec() == (m.mode() & 0o111 != 0), "C11: MemfsEntry::is_exec disagrees with mode()");
    assert!(m.is_readonly() == (m.mode() & 0o222 == 0), "C11: MemfsEntry::is_readonly disagrees with mode()");
    let s = any_stdfs_entry();
    assert!(s.is_exec() == (s.mode() & 0o111 != 0), "C11: StdfsEntry::is_exec disagrees with mode()");
    assert!(s.is_readonly() == (s.mode() & 0o222 == 0), "C11: StdfsEntry::is_readonly disagrees with mode()");
    let v = VfsEntry::Memfs(any_memfs_entry());
    assert!(v.is_exec() == (v.mode() & 0o111 != 0), "C11: VfsEntry::is_exec disagrees with mode()");
    assert!(v.is_readonly() == (v.mode() & 0o222 == 0), "C11: VfsEntry::is_readonly disagrees with mode()");
    kani::cover!(m.mode() & 0o222 == 0o020, "group-writable only");
    std::mem::forget(m);
    std::mem::forget(s);
    std::mem::forget(v);
}

// ---------------------------------------------------------------------------------------------
// C13: VfsEntry accessors
// ---------------------------------------------------------------------------------------------
macro_rules! same_accessors {
    ($v:expr, $e:expr) => {{
        let (v, e) = (&$v, &$e);
        assert!(plen(v.path()) == plen(e.path()), "C13: VfsEntry::path differs from the wrapped entry");
        assert!(plen(&v.path_buf()) == plen(&e.path_buf()), "C13: VfsEntry::path_buf differs from the wrapped entry");
        assert!(plen(v.alt()) == plen(e.alt()), "C13: VfsEntry::alt differs from the wrapped entry");
        assert!(plen(&v.alt_buf()) == plen(&e.alt_buf()), "C13: VfsEntry::alt_buf differs from the wrapped entry");
        assert!(plen(v.rel()) == plen(e.rel()), "C13: VfsEntry::rel differs from the wrapped entry");
        assert!(plen(&v.rel_buf()) == plen(&e.rel_buf()), "C13: VfsEntry::rel_buf differs from the wrapped entry");
        assert!(v.following() == e.following(), "C13: VfsEntry::following differs from the wrapped entry");
        assert!(v.is_dir() == e.is_dir(), "C13: VfsEntry::is_dir differs from the wrapped entry");
        assert!(v.is_file() == e.is_file(), "C13: VfsEntry::is_file differs from the wrapped entry");
        assert!(v.is_symlink() == e.is_symlink(), "C13: VfsEntry::is_symlink differs from the wrapped entry");
        assert!(v.is_readonly() == e.is_readonly(), "C13: VfsEntry::is_readonly differs from the wrapped entry");
        assert!(v.is_exec() == e.is_exec(), "C13: VfsEntry::is_exec differs from the wrapped entry");
        assert!(v.is_symlink_dir() == e.is_symlink_dir(), "C13: VfsEntry::is_symlink_dir differs from the wrapped entry");
        assert!(v.is_symlink_file() == e.is_symlink_file(), "C13: VfsEntry::is_symlink_file differs from the wrapped entry");
        assert!(v.mode() == e.mode(), "C13: VfsEntry::mode differs from the wrapped entry");
    }};
}

#[kani::proof]
#[kani::unwind(6)]
fn c13_vfsentry_memfs_accessors() {
    let e = any_memfs_entry();
    let v = VfsEntry::Memfs(e.clone());
    same_accessors!(v, e);
    kani::cover!(e.link && e.dir, "link to dir");
    kani::cover!(e.mode & 0o222 == 0o002, "other-writable only");
    std::mem::forget(e);
    std::mem::forget(v);
}

#[kani::proof]
#[kani::unwind(6)]
fn c13_vfsentry_stdfs_accessors() {
    let e = any_stdfs_entry();
    let v = VfsEntry::Stdfs(e.clone());
    same_accessors!(v, e);
    kani::cover!(e.link && e.file, "link to file");
    std::mem::forget(e);
    std::mem::forget(v);
}

// follow(f): swaps path and alt exactly once, for a link that is not yet followed and f == true;
// through VfsEntry the result is the same as on the wrapped entry; upcast is the identity.
#[kani::proof]
#[kani::unwind(6)]
fn c13_follow_swaps_once() {
    let e = any_memfs_entry();
    let f: bool = kani::any();
    let (link, followed) = (e.link, e.follow);
    let (p0, a0) = (plen(&e.path), plen(&e.alt));
    let swap = f && link && !followed;
    let direct = e.clone().follow(f);
    let via = VfsEntry::Memfs(e.clone()).follow(f);
    assert!(plen(direct.path()) == if swap { a0 } else { p0 }, "C13: follow() path after swap");
    assert!(plen(direct.alt()) == if swap { p0 } else { a0 }, "C13: follow() alt after swap");
    assert!(direct.following() == (followed || swap), "C13: follow() flag");
    assert!(plen(via.path()) == plen(direct.path()) && plen(via.alt()) == plen(direct.alt()),
        "C13: VfsEntry::follow differs from the wrapped entry's follow");
    assert!(via.following() == direct.following(), "C13: VfsEntry::follow flag differs");
    // a second follow(true) must not swap back
    let twice = direct.follow(true);
    let swapped_now = followed || swap || link;
    assert!(plen(twice.path()) == if link && !followed { a0 } else { p0 }, "C13: follow(true) swapped twice");
    let _ = swapped_now;
    // upcast is transparent
    let up = via.upcast();
    assert!(up.mode() == e.mode && up.is_symlink() == link, "C13: VfsEntry::upcast changed the entry");
    kani::cover!(swap, "swap happens");
    kani::cover!(f && link && followed, "already followed");
    std::mem::forget(e);
    std::mem::forget(twice);
    std::mem::forget(up);
}

#[kani::proof]
#[kani::unwind(6)]
fn c13_follow_swaps_once_stdfs() {
    let e = any_stdfs_entry();
    let f: bool = kani::any();
    let (link, followed) = (e.link, e.follow);
    let (p0, a0) = (plen(&e.path), plen(&e.alt));
    let swap = f && link && !followed;
    let direct = e.clone().follow(f);
    let via = VfsEntry::Stdfs(e.clone()).follow(f);
    assert!(plen(direct.path()) == if swap { a0 } else { p0 }, "C13: follow() path after swap");
    assert!(plen(direct.alt()) == if swap { p0 } else { a0 }, "C13: follow() alt after swap");
    assert!(plen(via.path()) == plen(direct.path()) && plen(via.alt()) == plen(direct.alt()),
        "C13: VfsEntry::follow differs from the wrapped entry's follow");
    assert!(via.following() == direct.following(), "C13: VfsEntry::follow flag differs");
    kani::cover!(swap, "swap happens");
    std::mem::forget(e);
    std::mem::forget(direct);
    std::mem::forget(via);
}

#[kani::proof]
#[kani::unwind(6)]
fn c13_entry_witness() {
    let e = any_memfs_entry();
    let v = VfsEntry::Memfs(e.clone());
    same_accessors!(v, e);
    std::mem::forget(e);
    std::mem::forget(v);
    assert!(false, "witness: end of harness reachable");
}
