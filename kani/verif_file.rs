// Kani harnesses for C07 (MemfsFile vs std::io::Cursor; write/flush buffering) and the C12
// panic-freedom obligations of the same code.  Injected into a scratch copy of /repo as
// `src/sys/fs/memfs/verif_file.rs` behind `#[cfg(kani)]` (MemfsFile is private to this module).
use std::io::{Cursor, Read, Seek, SeekFrom, Write};

use super::file::MemfsFile;

const D: usize = 4; // file length bound
const B: usize = 5; // read buffer bound

fn any_data() -> (Vec<u8>, usize) {
    let bytes: [u8; D] = kani::any();
    let n: usize = kani::any();
    kani::assume(n <= D);
    (bytes[..n].to_vec(), n)
}

// A read handle exactly as `Memfs::read` hands it out: a clone of the stored file (pos 0, no
// path/fs needed for Read+Seek).
fn read_handle(data: Vec<u8>) -> MemfsFile {
    MemfsFile { pos: 0, data, path: None, fs: None }
}

fn any_seek() -> SeekFrom {
    let k: u8 = kani::any();
    kani::assume(k < 3);
    match k {
        0 => SeekFrom::Start(kani::any()),
        1 => SeekFrom::Current(kani::any()),
        _ => SeekFrom::End(kani::any()),
    }
}

// One symbolic step applied to both; returns false when the step was a seek that failed.
fn step(mf: &mut MemfsFile, cur: &mut Cursor<Vec<u8>>, n: usize) {
    let is_seek: bool = kani::any();
    if is_seek {
        let before = cur.position();
        let sf = any_seek();
        let a = mf.seek(sf);
        let b = cur.seek(sf);
        match (&a, &b) {
            (Ok(x), Ok(y)) => {
                assert!(*x == *y, "C07: seek returns a position different from io::Cursor");
                kani::cover!(*y > n as u64, "seek beyond the end accepted");
            }
            (Err(_), Err(_)) => {
                assert!(mf.pos == before, "C07: failed seek moved the position");
                kani::cover!(true, "seek before start rejected");
            }
            (Ok(_), Err(_)) => {
                assert!(false, "C07: seek to a negative/overflowing position must be an error");
            }
            (Err(_), Ok(_)) => {
                assert!(false, "C07: seek that io::Cursor accepts was rejected");
            }
        }
        std::mem::forget(a);
        std::mem::forget(b);
    } else {
        let blen: usize = kani::any();
        kani::assume(blen <= B);
        let mut b1 = [0u8; B];
        let mut b2 = [0u8; B];
        let at_or_past_end = cur.position() >= n as u64;
        let a = mf.read(&mut b1[..blen]);
        let b = cur.read(&mut b2[..blen]);
        match (&a, &b) {
            (Ok(x), Ok(y)) => {
                assert!(*x == *y, "C07: read returns a count different from io::Cursor");
                if at_or_past_end {
                    assert!(*x == 0, "C07: read at or beyond the end must return 0");
                    kani::cover!(blen > 0, "read at/after end");
                }
                let mut i = 0;
                while i < B {
                    assert!(b1[i] == b2[i], "C07: read delivers bytes different from io::Cursor");
                    i += 1;
                }
                kani::cover!(*y > 0 && *y < blen, "short read");
            }
            _ => assert!(false, "C07: read failed"),
        }
        std::mem::forget(a);
        std::mem::forget(b);
    }
    assert!(mf.pos == cur.position(), "C07: position differs from io::Cursor after the step");
}

fn run_read_seek(k: usize) {
    let (data, n) = any_data();
    let mut cur = Cursor::new(data.clone());
    let mut mf = read_handle(data);
    let mut i = 0;
    while i < k {
        step(&mut mf, &mut cur, n);
        i += 1;
    }
    // stream_position / rewind are provided methods on top of seek
    let sp = mf.stream_position();
    assert!(matches!(sp, Ok(p) if p == cur.position()), "C07: stream_position differs from io::Cursor");
    std::mem::forget(sp);
    std::mem::forget(mf);
    std::mem::forget(cur);
}

#[kani::proof]
#[kani::unwind(7)]
fn c07_read_seek_k1() {
    run_read_seek(1);
}

#[kani::proof]
#[kani::unwind(7)]
fn c07_read_seek_k2() {
    run_read_seek(2);
}

#[kani::proof]
#[kani::unwind(7)]
fn c07_read_seek_k3() {
    run_read_seek(3);
}

// Write half: every chunking of <= W bytes into <= 3 writes, flush at symbolic points.  With
// `fs: None` the handle is the pure buffer; what must hold is that the buffer always equals what
// was already there followed by everything written so far, each write is complete, flush is Ok
// and changes nothing.  (Persisting the buffer into Memfs' map is outside this claim.)
const W: usize = 6;

fn run_write(existing: usize) {
    let pre: [u8; 2] = kani::any();
    let payload: [u8; W] = kani::any();
    let total: usize = kani::any();
    kani::assume(total <= W);
    // an append handle is a clone of the stored file positioned at its end
    let mut mf = MemfsFile { pos: 0, data: pre[..existing].to_vec(), path: None, fs: None };
    let r = mf.seek(SeekFrom::End(0));
    assert!(matches!(r, Ok(p) if p == existing as u64), "C07: append handle not positioned at the end");
    std::mem::forget(r);

    let mut done = 0usize;
    let mut c = 0;
    while c < 3 {
        let chunk: usize = kani::any();
        kani::assume(chunk <= total - done);
        let r = mf.write(&payload[done..done + chunk]);
        assert!(matches!(r, Ok(w) if w == chunk), "C07: write did not accept the whole chunk");
        std::mem::forget(r);
        done += chunk;
        if kani::any() {
            let f = mf.flush();
            assert!(f.is_ok(), "C07: flush failed on a detached handle");
            std::mem::forget(f);
            kani::cover!(done > 0 && done < total, "flush between chunks");
        }
        // buffer == existing ++ payload[..done] at every point
        assert!(mf.data.len() == existing + done, "C07: buffer length after write");
        let mut i = 0;
        while i < existing {
            assert!(mf.data[i] == pre[i], "C07: write altered the existing prefix");
            i += 1;
        }
        let mut j = 0;
        while j < done {
            assert!(mf.data[existing + j] == payload[j], "C07: buffer differs from the bytes written");
            j += 1;
        }
        c += 1;
    }
    kani::cover!(done == W, "all bytes written");
    std::mem::forget(mf);
}

#[kani::proof]
#[kani::unwind(8)]
fn c07_write_chunks() {
    run_write(0);
}

#[kani::proof]
#[kani::unwind(8)]
fn c07_append_chunks() {
    let existing: usize = kani::any();
    kani::assume(existing >= 1 && existing <= 2);
    run_write(existing);
}

// `len()` (remaining bytes) for any position
#[kani::proof]
#[kani::unwind(6)]
fn c07_len_total() {
    let (data, n) = any_data();
    let mut mf = read_handle(data);
    mf.pos = kani::any();
    let l = mf.len();
    let exp = if mf.pos >= n as u64 { 0 } else { n as u64 - mf.pos };
    assert!(l == exp, "C07: len() is not the number of bytes remaining");
    kani::cover!(mf.pos > n as u64, "position past the end");
    std::mem::forget(mf);
}

#[kani::proof]
#[kani::unwind(7)]
fn c07_read_seek_witness() {
    let (data, n) = any_data();
    let mut cur = Cursor::new(data.clone());
    let mut mf = read_handle(data);
    step(&mut mf, &mut cur, n);
    std::mem::forget(mf);
    std::mem::forget(cur);
    assert!(false, "witness: end of harness reachable");
}

#[kani::proof]
#[kani::unwind(8)]
fn c07_write_witness() {
    run_write(0);
    assert!(false, "witness: end of harness reachable");
}
