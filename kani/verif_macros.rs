// Wrappers that expand every assert_vfs_* macro inside the crate, so that the expansion is part of the MIR dump.
use std::path::Path;

use crate::prelude::*;

pub fn vm_exists(vfs: &Memfs, p: &Path) { assert_vfs_exists!(vfs, p); }
pub fn vm_no_exists(vfs: &Memfs, p: &Path) { assert_vfs_no_exists!(vfs, p); }
pub fn vm_is_dir(vfs: &Memfs, p: &Path) { assert_vfs_is_dir!(vfs, p); }
pub fn vm_no_dir(vfs: &Memfs, p: &Path) { assert_vfs_no_dir!(vfs, p); }
pub fn vm_is_file(vfs: &Memfs, p: &Path) { assert_vfs_is_file!(vfs, p); }
pub fn vm_no_file(vfs: &Memfs, p: &Path) { assert_vfs_no_file!(vfs, p); }
pub fn vm_is_symlink(vfs: &Memfs, p: &Path) { assert_vfs_is_symlink!(vfs, p); }
pub fn vm_no_symlink(vfs: &Memfs, p: &Path) { assert_vfs_no_symlink!(vfs, p); }
pub fn vm_read_all(vfs: &Memfs, p: &Path, d: String) { assert_vfs_read_all!(vfs, p, d); }
pub fn vm_readlink(vfs: &Memfs, p: &Path, t: &Path) { assert_vfs_readlink!(vfs, p, t); }
pub fn vm_readlink_abs(vfs: &Memfs, p: &Path, t: &Path) { assert_vfs_readlink_abs!(vfs, p, t); }
pub fn vm_mkdir_p(vfs: &Memfs, p: &Path) { assert_vfs_mkdir_p!(vfs, p); }
pub fn vm_mkdir_m(vfs: &Memfs, p: &Path, m: u32) { assert_vfs_mkdir_m!(vfs, p, m); }
pub fn vm_mkfile(vfs: &Memfs, p: &Path) { assert_vfs_mkfile!(vfs, p); }
pub fn vm_write_all(vfs: &Memfs, p: &Path, d: &str) { assert_vfs_write_all!(vfs, p, d); }
pub fn vm_copyfile(vfs: &Memfs, s: &Path, d: &Path) { assert_vfs_copyfile!(vfs, s, d); }
pub fn vm_symlink(vfs: &Memfs, l: &Path, t: &Path) { assert_vfs_symlink!(vfs, l, t); }
pub fn vm_remove(vfs: &Memfs, p: &Path) { assert_vfs_remove!(vfs, p); }
pub fn vm_remove_all(vfs: &Memfs, p: &Path) { assert_vfs_remove_all!(vfs, p); }
