"""E2: mirsym jobs.  Each job executes the *real* MIR of named rivia functions (dumped from /repo's
current working tree by the nightly compiler on every run) symbolically and discharges its proof
obligations with z3 (cross-checked by cvc5)."""
import glob
import hashlib
import json
import os
import re
import shutil
import subprocess
import time
import traceback

from . import common
from .common import VERIF
from .mirsym import parse as mparse
from .mirsym.engine import Executor, Unsupported
from .mirsym.parse import MirError
from .mirsym.smt import Solver, SolverError

JOBS = {}  # name -> dict(props=[..], tier=.., fn=callable(ctx) -> unit)


def job(name, props, tier="quick", functions=None, bounds=""):
    def deco(fn):
        JOBS[name] = dict(name=name, props=props, tier=tier, fn=fn, functions=functions or [], bounds=bounds)
        return fn
    return deco


class Ctx:
    """Per-run context shared by the jobs of one invocation: the MIR dump, enum tables, log dir."""

    def __init__(self, logdir, tier):
        self.logdir, self.tier = logdir, tier
        self.scratch = None
        self.mir = None
        self.enums = None
        self.mir_s = 0.0

    def ensure_mir(self):
        if self.mir is not None:
            return
        t0 = time.time()
        self.scratch = common.new_scratch("mir")
        if getattr(self, "inject_macros", False):
            # C20: the macros expand in the caller's crate; kani/verif_macros.rs calls each of them from inside a scratch copy of
            # the crate so that the expansions are part of this dump (nothing is added to /repo)
            shutil.copy2(os.path.join(common.VERIF, "kani", "verif_macros.rs"), os.path.join(self.scratch, "src", "verif_macros.rs"))
            with open(os.path.join(self.scratch, "src", "lib.rs"), "a") as f:
                f.write("\npub mod verif_macros;\n")
        out = os.path.join(self.scratch, "mir.txt")
        cmd = ["cargo", "+nightly", "rustc", "--offline", "--lib", "--target-dir", os.path.join(self.scratch, "target"),
               "--", "-Zunpretty=mir", "-C", "debug-assertions=off", "-C", "overflow-checks=on"]
        with open(out, "w") as f:
            r = subprocess.run(cmd, cwd=self.scratch, stdout=f, stderr=subprocess.PIPE, text=True,
                               env=common.offline_env())
        if r.returncode != 0 or os.path.getsize(out) < 1000:
            raise MirError("MIR dump failed: " + r.stderr[-800:])
        self.mir = mparse.Mir(out)
        self.enums = parse_enums(os.path.join(self.scratch, "src"))
        self.structs = parse_structs(os.path.join(self.scratch, "src"))
        self.mir_s = time.time() - t0

    def solver(self, name):
        self._nsolver = getattr(self, "_nsolver", 0) + 1
        return Solver(os.path.join(self.logdir, "%s.%d.%d.smt2" % (name, os.getpid(), self._nsolver)))

    def close(self):
        if self.scratch:
            common.drop_scratch(self.scratch)
            self.scratch = None


RE_ENUM = re.compile(r"enum\s+(\w+)\s*(?:<[^>{]*>)?\s*\{(.*?)\n\}", re.S)


def parse_structs(srcdir):
    """Field order (and type text) of every braced struct declared in rivia's sources."""
    structs = {}
    for p in glob.glob(os.path.join(srcdir, "**", "*.rs"), recursive=True):
        if os.path.basename(p).startswith("verif_"):
            continue
        txt = re.sub(r"//[^\n]*", "", open(p).read())
        for m in re.finditer(r"\bstruct\s+(\w+)\s*(?:<[^{;]*>)?\s*(?:where[^{]*)?\{", txt):
            i, depth = m.end(), 1
            while i < len(txt) and depth:
                depth += txt[i] == "{"
                depth -= txt[i] == "}"
                i += 1
            body = re.sub(r"#\[[^\]]*\]", "", txt[m.end():i - 1])
            fields, depth, cur = [], 0, ""
            for ch in body:
                if ch in "({[<":
                    depth += 1
                elif ch in ")}]>" :
                    depth -= 1
                if ch == "," and depth == 0:
                    fields.append(cur)
                    cur = ""
                else:
                    cur += ch
            fields.append(cur)
            fs = []
            for f in fields:
                mm = re.match(r"\s*(?:pub(?:\([^)]*\))?\s+)?(\w+)\s*:\s*(.+?)\s*$", f, re.S)
                if mm:
                    fs.append((mm.group(1), " ".join(mm.group(2).split())))
            if fs:
                structs.setdefault(m.group(1), fs)
    return structs


def parse_enums(srcdir):
    """Variant order of every enum declared in rivia's sources (no explicit discriminants are used)."""
    enums = {}
    for p in glob.glob(os.path.join(srcdir, "**", "*.rs"), recursive=True):
        if os.path.basename(p).startswith("verif_"):
            continue
        txt = open(p).read()
        for m in RE_ENUM.finditer(txt):
            body = re.sub(r"//[^\n]*", "", m.group(2))
            body = re.sub(r"#\[[^\]]*\]", "", body)
            names, depth, cur = [], 0, ""
            for ch in body:
                if ch in "({[<":
                    depth += 1
                elif ch in ")}]>":
                    depth -= 1
                if ch == "," and depth == 0:
                    names.append(cur)
                    cur = ""
                else:
                    cur += ch
            names.append(cur)
            vs = []
            for n in names:
                mm = re.match(r"\s*(\w+)", n)
                if mm:
                    vs.append(mm.group(1))
            if vs:
                enums.setdefault(m.group(1), vs)
    return enums


# ------------------------------------------------------------------------------------------------
# native replay of a counterexample through the public API
# ------------------------------------------------------------------------------------------------
def native_test(test_src, logdir, tag, env=None, unit_in_crate=None):
    """Runs `test_src` as an integration test (tests/verif_replay.rs) of a scratch copy of /repo.
    Returns dict(ran, failed, out)."""
    scratch = common.new_scratch("e2replay")
    os.makedirs(os.path.join(scratch, "tests"), exist_ok=True)
    with open(os.path.join(scratch, "tests", "verif_replay.rs"), "w") as f:
        f.write(test_src)
    rc, out, dt, to = common.run_capped(
        ["cargo", "test", "--offline", "--test", "verif_replay", "--target-dir", os.path.join(scratch, "target"), "--",
         "--test-threads", "1"],
        scratch, 900, env=common.offline_env(env), log=os.path.join(logdir, "e2replay_%s.log" % tag))
    common.drop_scratch(scratch)
    m = re.search(r"test result: \w+\. (\d+) passed; (\d+) failed", out)
    compiled = "could not compile" not in out and "error[E" not in out
    return dict(ran=bool(m), compiled=compiled, failed=int(m.group(2)) if m else 0, passed=int(m.group(1)) if m else 0,
                out=("REPLAY HARNESS DID NOT COMPILE\n" if not compiled else "") + "\n".join(out.splitlines()[-25:]))


def save_replay(prop, unit, test_src, desc, outcome):
    d = os.path.join(VERIF, "replays", prop)
    os.makedirs(d, exist_ok=True)
    hid = hashlib.sha1((unit + test_src).encode()).hexdigest()[:10]
    p = os.path.join(d, "%s-%s.rs" % (unit, hid))
    with open(p, "w") as f:
        f.write("// VERIF-E2: property %s unit %s\n// failing obligation: %s\n// native outcome: %s\n" % (
            prop, unit, desc, json.dumps(outcome)[:600]))
        f.write(test_src)
    return p


def replay_file(path):
    src = open(path).read()
    logdir = os.path.join(VERIF, ".cache", "logs", "replay")
    os.makedirs(logdir, exist_ok=True)
    body = src[src.index("\n", src.index("// native outcome")) + 1:]
    r = native_test(body, logdir, "manual")
    print("replay %s: ran=%s failed=%s\n%s" % (path, r["ran"], r["failed"], r["out"]))
    return 1 if r["failed"] else 0


_CTX = None
_PROP = None


def _worker_init():
    # forked workers must never clean up the parent's scratch directories
    import signal
    signal.signal(signal.SIGTERM, signal.SIG_DFL)
    del common._scratch_dirs[:]


def _run_job(name):
    """Runs one job (in a forked worker: the parsed MIR is shared copy-on-write)."""
    ctx, prop = _CTX, _PROP
    j = JOBS[name]
    t0 = time.time()
    try:
        u = j["fn"](ctx, prop)
    except (MirError, SolverError, Unsupported) as e:
        u = dict(status="inconclusive", why="%s: %s" % (type(e).__name__, e), failures=[])
    except Exception as e:  # an internal error of the checker is never a verdict
        u = dict(status="inconclusive", why="internal error: %s" % traceback.format_exc()[-1500:], failures=[])
    u.setdefault("unit", j["name"])
    u.setdefault("engine", "mirsym")
    u.setdefault("props", j["props"])
    u.setdefault("functions", j["functions"])
    u.setdefault("bounds", j["bounds"])
    u.setdefault("failures", [])
    u.setdefault("why", "")
    u.setdefault("witness", False)
    u.setdefault("obligations", 0)
    u.setdefault("discharged", 0)
    u.setdefault("queries", 0)
    u["wall_s"] = round(time.time() - t0, 2)
    ev = dict(unit=u["unit"], engine="mirsym (MIR -> SMT-LIB2, z3 + cvc5 cross-check)", status=u["status"],
              why=u["why"], bounds=u["bounds"], obligations=u["obligations"], discharged=u["discharged"],
              queries=u["queries"], solver_s=round(u.get("solver_s", 0), 2), wall_s=u["wall_s"],
              mir_dump_s=round(ctx.mir_s, 1))
    for k in ("paths", "forks", "cross_check", "models_used", "callees", "planted_mutants", "notes",
              "model_validation"):
        if k in u:
            ev[k] = u[k]
    u["evidence"] = ev
    return u


# ------------------------------------------------------------------------------------------------
C12_THOROUGH_ONLY = ("c08_", "c09_", "c11_tree", "c20_", "c01_hist", "c10_symlink_l3", "c10_symlink_deep", "c06_copy", "c03_mem_copy")


def run(prop, tier, logdir, only=None):
    from . import e2_jobs, e2_validate  # noqa: F401  (register jobs)
    tiers = ("quick",) if tier == "quick" else ("quick", "thorough")
    todo = [j for j in JOBS.values() if prop in j["props"] and j["tier"] in tiers]
    if prop == "C12" and tier == "quick":
        # the panic obligations of the heavy traversal / copy / macro / history units are part of C12's thorough tier only
        todo = [j for j in todo if not j["name"].startswith(C12_THOROUGH_ONLY)]
    if only:
        todo = [j for j in todo if j["name"] in only]
    if not todo:
        return []
    ctx = Ctx(logdir, tier)
    ctx.inject_macros = prop in ("C20", "C12")  # wrappers that expand the assert_vfs_* macros inside the crate
    units = []
    try:
        try:
            ctx.ensure_mir()
        except Exception as e:
            for j in todo:
                units.append(dict(unit=j["name"], engine="mirsym", props=j["props"], status="inconclusive",
                                  why="MIR dump/parse failed: %s" % e, failures=[], functions=j["functions"],
                                  bounds=j["bounds"]))
            return units
        import multiprocessing as mp
        global _CTX, _PROP
        _CTX, _PROP = ctx, prop
        todo.sort(key=lambda j: -j.get("weight", 1))
        workers = min(len(todo), int(os.environ.get("VERIF_E2_JOBS", "10")))
        if workers <= 1:
            res = [_run_job(j["name"]) for j in todo]
        else:
            with mp.get_context("fork").Pool(workers, initializer=_worker_init) as pool:
                res = pool.map(_run_job, [j["name"] for j in todo], chunksize=1)
        units.extend(res)
    finally:
        ctx.close()
    return units
