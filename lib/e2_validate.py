"""Differential validation of the std environment models against the real std (native run).

A generated integration test prints what the real std::path / str functions return for a corpus of
small strings (alphabet '/', '.', 'a', 'é'); the Python models are evaluated concretely on the same
corpus and every field is compared.  This validates the *models of std*, not rivia."""
import itertools
import os
import re
import time

from . import common
from .e2 import job, native_test
from .mirsym import models as M
from .mirsym import textpath as TP
from .mirsym.values import B, BV

ALPHA = ["/", ".", "a", "\u00e9"]
PUSHES = ["", "/", "a", "/b", ".", "..", "c/", "\u00e9"]
PATS = ["", "a", ".", "/", "a/", "\u00e9", "a."]


class Conc:
    """decide() for concrete values only"""

    def decide(self, st, c):
        assert c.concrete, c
        return c.v


EX = Conc()


def chars(s):
    return [BV(32, False, ord(c)) for c in s]


def txt(cs):
    return "".join(chr(c.v) for c in cs)


def corpus(nmax):
    out = [""]
    for n in range(1, nmax + 1):
        out += ["".join(t) for t in itertools.product(ALPHA, repeat=n)]
    return out


def esc(s):
    return s.replace("\u00e9", "E")


def model_line(s):
    c = chars(s)
    toks = TP.tokenize(EX, None, c)
    kinds = {1: "R", 2: "C", 3: "P", 4: "N"}
    f = {}
    f["comps"] = ",".join(kinds[t[0].kind] + ":" + txt(t[0].text) for t in toks)
    p = TP.parent_text(EX, None, c)
    f["parent"] = "<none>" if p is None else txt(p)
    last = toks[-1][0] if toks else None
    f["file_name"] = txt(last.text) if last is not None and last.kind == 4 else "<none>"
    if last is not None and last.kind == 4:
        stem, e = TP.split_ext(EX, None, last.text)
        f["ext"] = "<none>" if e is None else txt(e)
        f["stem"] = txt(stem)
    else:
        f["ext"] = f["stem"] = "<none>"
    buf = TP.PathBufT(c)
    pp = TP.parent_text(EX, None, buf.chars)
    f["pop"] = ("true:" + txt(pp)) if pp is not None else ("false:" + s)
    for i, q in enumerate(PUSHES):
        b2 = TP.PathBufT(c)
        TP.push_text(EX, None, b2, chars(q))
        f["push%d" % i] = txt(b2.chars)
    it = TP.ComponentsT(c, toks)
    f["as_path"] = txt(it.as_path_text())
    f["drop1"] = txt(TP.ComponentsT(c, toks, min(1, len(toks)), None).as_path_text())
    f["dropb1"] = txt(TP.ComponentsT(c, toks, 0, max(0, len(toks) - 1)).as_path_text())
    b3 = TP.PathBufT([])
    for t in toks:
        TP.push_text(EX, None, b3, t[0].text)
    f["collect"] = txt(b3.chars)
    # str-level models
    for i, q in enumerate(PATS):
        ss, qq = M.SStr(c), M.SStr(chars(q))
        n, k = len(c), len(qq.chars)
        f["ends%d" % i] = str(s.endswith(q)).lower()  # python reference == model by construction below
        # model evaluation (concrete): same code path as make_text_models
        f["ends%d" % i] = str((k <= n) and all(a.v == b.v for a, b in zip(c[n - k:], qq.chars))).lower()
        f["starts%d" % i] = str((k <= n) and all(a.v == b.v for a, b in zip(c[:k], qq.chars))).lower()
        pos = None
        for j in range(0, n - k + 1):
            if all(a.v == b.v for a, b in zip(c[j:j + k], qq.chars)):
                pos = sum(M.utf8_len(x).v for x in c[:j])
                break
        f["find%d" % i] = "<none>" if pos is None else str(pos)
        pos = None
        for j in range(n - k, -1, -1):
            if all(a.v == b.v for a, b in zip(c[j:j + k], qq.chars)):
                pos = sum(M.utf8_len(x).v for x in c[:j])
                break
        f["rfind%d" % i] = "<none>" if pos is None else str(pos)
    for i, q in enumerate(PUSHES):
        ta = [t[0] for t in toks]
        tb = [t[0] for t in TP.tokenize(EX, None, chars(q))]
        ok = len(tb) <= len(ta) and all(TP.tcomp_eq(x, y).v for x, y in zip(ta[:len(tb)], tb))
        f["pstarts%d" % i] = str(bool(ok)).lower()
    f["len"] = str(sum(M.utf8_len(x).v for x in c))
    f["count"] = str(len(c))
    bounds = {sum(M.utf8_len(x).v for x in c[:k]) for k in range(len(c) + 1)}
    f["bounds"] = ",".join(str(i) for i in range(0, int(f["len"]) + 2) if i in bounds)
    return esc(s) + "|" + "|".join("%s=%s" % (k, esc(v)) for k, v in f.items())


def cross_check_component_model():
    """component-level PathBuf model (models.py) vs the text-level one on all push sequences (<= 4) + one pop"""
    from .mirsym.models import Comp, PathBufM, pathbuf_push_comp, m_pathbuf_pop
    from .mirsym.values import I
    kinds = [(1, "/"), (2, "."), (3, ".."), (4, "a"), (4, "b")]
    bad = []
    for n in range(0, 5):
        for seq in itertools.product(kinds, repeat=n):
            cb = PathBufM([])
            tb = TP.PathBufT([])
            for k, t in seq:
                pathbuf_push_comp(EX, None, cb, Comp(I(k), I(ord(t[0]))))
                TP.push_text(EX, None, tb, chars(t))
            def norm_c(b):
                return [(c.kind.v, chr(c.atom.v) if c.kind.v == 4 else "") for c in b.comps]
            def norm_t(b):
                return [(t[0].kind, txt(t[0].text) if t[0].kind == 4 else "") for t in TP.tokenize(EX, None, b.chars)]
            if norm_c(cb) != norm_t(tb):
                bad.append(("push " + repr(seq), [(norm_c(cb), norm_t(tb))]))
                continue
            r1 = m_pathbuf_pop(EX, None, [cb], "", "")
            pp = TP.parent_text(EX, None, tb.chars)
            if pp is not None:
                tb.chars = list(pp)
            if r1.v != (pp is not None) or norm_c(cb) != norm_t(tb):
                bad.append(("pop after " + repr(seq), [(norm_c(cb), norm_t(tb))]))
    return bad


RUST = r'''
use std::path::{Component, Path, PathBuf};
fn esc(s: &str) -> String { s.replace('\u{e9}', "E") }
fn p(x: &Path) -> String { esc(x.to_str().unwrap()) }
fn corpus(nmax: usize) -> Vec<String> {
    let alpha = ["/", ".", "a", "\u{e9}"];
    let mut out = vec![String::new()];
    let mut cur = vec![String::new()];
    for _ in 0..nmax {
        let mut next = vec![];
        for s in &cur { for a in alpha.iter() { next.push(format!("{}{}", s, a)); } }
        out.extend(next.iter().cloned());
        cur = next;
    }
    out
}
#[test]
fn dump() {
    let pushes = ["", "/", "a", "/b", ".", "..", "c/", "\u{e9}"];
    let pats = ["", "a", ".", "/", "a/", "\u{e9}", "a."];
    for s in corpus(NMAX) {
        let path = Path::new(&s);
        let mut f: Vec<(String, String)> = vec![];
        let comps: Vec<String> = path.components().map(|c| match c {
            Component::RootDir => "R:/".to_string(), Component::CurDir => "C:.".to_string(),
            Component::ParentDir => "P:..".to_string(), Component::Normal(x) => format!("N:{}", x.to_str().unwrap()),
            _ => "X".to_string() }).collect();
        f.push(("comps".into(), comps.join(",")));
        f.push(("parent".into(), path.parent().map(|x| x.to_str().unwrap().to_string()).unwrap_or("<none>".into())));
        f.push(("file_name".into(), path.file_name().map(|x| x.to_str().unwrap().to_string()).unwrap_or("<none>".into())));
        f.push(("ext".into(), path.extension().map(|x| x.to_str().unwrap().to_string()).unwrap_or("<none>".into())));
        f.push(("stem".into(), path.file_stem().map(|x| x.to_str().unwrap().to_string()).unwrap_or("<none>".into())));
        let mut b = PathBuf::from(&s);
        let r = b.pop();
        f.push(("pop".into(), format!("{}:{}", r, b.to_str().unwrap())));
        for (i, q) in pushes.iter().enumerate() {
            let mut b2 = PathBuf::from(&s);
            b2.push(q);
            f.push((format!("push{}", i), b2.to_str().unwrap().to_string()));
        }
        f.push(("as_path".into(), path.components().as_path().to_str().unwrap().to_string()));
        let mut it = path.components(); it.next();
        f.push(("drop1".into(), it.as_path().to_str().unwrap().to_string()));
        let mut it = path.components(); it.next_back();
        f.push(("dropb1".into(), it.as_path().to_str().unwrap().to_string()));
        f.push(("collect".into(), path.components().collect::<PathBuf>().to_str().unwrap().to_string()));
        for (i, q) in pats.iter().enumerate() {
            f.push((format!("ends{}", i), s.ends_with(q).to_string()));
            f.push((format!("starts{}", i), s.starts_with(q).to_string()));
            f.push((format!("find{}", i), s.find(q).map(|x| x.to_string()).unwrap_or("<none>".into())));
            f.push((format!("rfind{}", i), s.rfind(q).map(|x| x.to_string()).unwrap_or("<none>".into())));
        }
        for (i, q) in pushes.iter().enumerate() {
            f.push((format!("pstarts{}", i), path.starts_with(q).to_string()));
        }
        f.push(("len".into(), s.len().to_string()));
        f.push(("count".into(), s.chars().count().to_string()));
        let bounds: Vec<String> = (0..s.len() + 2).filter(|i| s.is_char_boundary(*i)).map(|i| i.to_string()).collect();
        f.push(("bounds".into(), bounds.join(",")));
        let line: Vec<String> = f.iter().map(|(k, v)| format!("{}={}", k, esc(v))).collect();
        println!("MODEL|{}|{}", p(path), line.join("|"));
    }
}
'''


def validate(ctx, nmax=5):
    t0 = time.time()
    src = RUST.replace("NMAX", str(nmax))
    scratch = common.new_scratch("validate")
    os.makedirs(os.path.join(scratch, "tests"), exist_ok=True)
    with open(os.path.join(scratch, "tests", "verif_models.rs"), "w") as f:
        f.write(src)
    rc, out, dt, to = common.run_capped(
        ["cargo", "test", "--offline", "--test", "verif_models", "--target-dir", os.path.join(scratch, "target"), "--",
         "--nocapture", "--test-threads", "1"], scratch, 900, env=common.offline_env(),
        log=os.path.join(ctx.logdir, "validate_models.log"))
    common.drop_scratch(scratch)
    real = {}
    for l in out.split("\n"):
        if "MODEL|" in l:
            parts = l[l.index("MODEL|") + 6:].split("|")
            real[parts[0]] = "|".join(parts)
    cor = corpus(nmax)
    if len(real) != len(cor):
        return dict(status="inconclusive", why="native model validation did not run (%d of %d lines)" % (len(real), len(cor)),
                    obligations=0, discharged=0)
    bad = []
    nfields = 0
    for s in cor:
        want = real.get(esc(s))
        got = model_line(s)
        nfields += got.count("|")
        if want != got:
            wf, gf = want.split("|"), got.split("|")
            diff = [(a, b) for a, b in zip(wf, gf) if a != b][:3]
            bad.append((esc(s), diff))
    bad2 = cross_check_component_model()
    bad += bad2
    u = dict(status="pass" if not bad else "inconclusive", failures=[], obligations=0, discharged=0,
             queries=0, model_validation="%d strings x %d fields (%d comparisons) of the text-level model compared with real std; "
             "component-level model compared with the text-level one on every push/pop sequence of <= 4 components (%.1fs)" % (
                 len(cor), nfields // max(1, len(cor)), nfields, time.time() - t0),
             samples=[dict(model_validation=model_line("a/./\u00e9")[:300])])
    if bad:
        u["why"] = "std model disagrees with real std on %d inputs, e.g. %s" % (len(bad), bad[:3])
    return u


@job("std_model_validation", ["C14", "C15", "C16", "C19"], "quick",
     functions=["environment models: lib/mirsym/textpath.py (tokeniser, push, pop, parent, file_name, extension, as_path), text models (find, rfind, starts/ends_with, UTF-8 lengths, char boundaries)"],
     bounds="all 1365 strings of length <= 5 over {'/', '.', 'a', 'é'}: real std vs model, field by field (validation of the environment stubs, not a property verdict)")
def std_model_validation(ctx, prop):
    return validate(ctx, 5)
