"""The mirsym jobs (one per encoded function family).  Registered into e2.JOBS on import."""
import os
import re
import time

from . import common
from .e2 import job, native_test, save_replay
from .mirsym import models as M
from .mirsym.engine import Executor, Fork, Unsupported
from .mirsym.models import CUR, NORMAL, PARENT, ROOT, Comp, PathBufM, PathM, comp_eq
from .mirsym.smt import parse_smt_int
from .mirsym.values import B, BV, I, Adt, BoxRef, Ref, Str, b_and, b_implies, b_not, b_or, i_eq

rx = re.compile


def find_generic(suffix):
    """finder for an inlinable rivia function whose header ends in `suffix(`."""
    def f(mir, callee, m):
        return mir.get(r"^fn (?:[\w:]+::)?%s\(" % re.escape(suffix))
    return f


RIVIA_INLINE = [
    (rx(r"^<Option<Component<'_>> as core::option::OptionExt<Component<'_>>>::has::<Component<'_>>$"),
     lambda mir, c, m: mir.get(r"^fn core::option::<impl at src/core/option\.rs[^>]*>::has\(")),
    (rx(r"^sys::fs::path::is_empty::<&PathBuf>$"), lambda mir, c, m: mir.get(r"^fn (sys::fs::path::)?is_empty\(")),
]


# ------------------------------------------------------------------------------------------------
# shared: symbolic component sequences
# ------------------------------------------------------------------------------------------------
def sym_comps(solver, prefix, k, absolute=None, clean_abs=False):
    """k symbolic components obeying the contract of `Path::components` on unix:
    RootDir only first, CurDir only first (and only when not rooted), no Prefix."""
    comps, cons = [], []
    for i in range(k):
        kn, an = "%s_k%d" % (prefix, i), "%s_a%d" % (prefix, i)
        solver.declare(kn, "Int")
        solver.declare(an, "Int")
        comps.append(Comp(I(kn), I(an)))
        if clean_abs:
            cons.append("(= %s %d)" % (kn, ROOT if i == 0 else NORMAL))
        elif i == 0:
            if absolute is True:
                cons.append("(= %s %d)" % (kn, ROOT))
            elif absolute is False:
                cons.append("(and (>= %s 2) (<= %s 4))" % (kn, kn))
            else:
                cons.append("(and (>= %s 1) (<= %s 4))" % (kn, kn))
        else:
            cons.append("(or (= %s %d) (= %s %d))" % (kn, PARENT, kn, NORMAL))
        cons.append("(and (>= %s 0) (< %s 3))" % (an, an))  # 3-name alphabet is enough to separate/identify
    return comps, cons


def comps_to_str(kinds_atoms):
    names = "abc"
    segs, s = [], ""
    for k, a in kinds_atoms:
        if k == ROOT:
            s = "/"
        elif k == CUR:
            segs.append(".")
        elif k == PARENT:
            segs.append("..")
        else:
            segs.append(names[a % 3] if a < 3 else "n%d" % a)
    return s + "/".join(segs)


def model_of(ex, st, comps, extra):
    """Concrete (kind, atom) list for the symbolic comps from a model of pc + extra."""
    terms = []
    for c in comps:
        if not c.kind.concrete:
            terms.append(c.kind.v)
        if not c.atom.concrete:
            terms.append(c.atom.v)
    r, model = ex.solver.check(st.pc + extra, want_model=terms or ["true"])
    if r != "sat":
        return None
    out = []
    for c in comps:
        k = c.kind.v if c.kind.concrete else parse_smt_int(model[c.kind.v])
        a = c.atom.v if c.atom.concrete else parse_smt_int(model[c.atom.v])
        out.append((k, a))
    return out


# ------------------------------------------------------------------------------------------------
# oracles on component sequences (use ex.decide, so they work on symbolic and concrete input alike)
# ------------------------------------------------------------------------------------------------
def go_clean(ex, st, comps):
    """Go's path.Clean restated on component sequences (written from the six documented rules)."""
    rooted = bool(comps) and ex.decide(st, i_eq(comps[0].kind, I(ROOT)))
    out = []
    for c in (comps[1:] if rooted else comps):
        if ex.decide(st, i_eq(c.kind, I(CUR))):
            continue  # rule 2: drop '.'
        if ex.decide(st, i_eq(c.kind, I(PARENT))):
            if out and not ex.decide(st, i_eq(out[-1].kind, I(PARENT))):
                out.pop()  # rule 3: inner '..' cancels the preceding normal component
            elif rooted:
                pass  # rule 4: '..' directly under the root disappears
            else:
                out.append(c)  # rule 5: leading '..' of a relative path is kept
        else:
            out.append(c)
    res = ([Comp(ROOT)] if rooted else []) + out
    if not res:
        res = [Comp(CUR)]  # rule: empty result is '.'
    return res


def seq_eq(a, b):
    if len(a) != len(b):
        return B(False)
    return b_and(*[comp_eq(x, y) for x, y in zip(a, b)])


class Obl:
    """Collects obligations of one job."""

    def __init__(self):
        self.total = 0
        self.discharged = 0
        self.failures = []  # dict(kind, desc, where, cex)
        self.samples = []
        self.vacuity_sat = 0

    def prove(self, ex, st, name, formula, cex_fn=None, kind="functional"):
        self.total += 1
        ok, _ = ex.valid(st, formula)
        if ok:
            self.discharged += 1
            return True
        cex = cex_fn(["(not %s)" % formula.smt()] if not formula.concrete else []) if cex_fn else None
        self.failures.append(dict(kind=kind, desc=name, where="", cex=cex))
        return False


def new_executor(ctx, solver, models, inline, **kw):
    ex = Executor(ctx.mir, solver, models, inline, enums=ctx.enums, **kw)
    ex.enum_hook = M.component_enum_hook
    return ex


def finish(unit, ex, solver, ob, t0, extra=None, cross=True):
    unit.update(obligations=ob.total, discharged=ob.discharged, queries=solver.nq, solver_s=solver.time,
                paths=ex.stats["paths"], forks=ex.stats["forks"], samples=ob.samples[:4],
                callees=sorted(ex.calls_seen))
    if cross:
        agree, detail, dt = solver.cross_check()
        unit["cross_check"] = "cvc5: %s (%.1fs)" % (detail, dt)
        if agree is not True:
            unit["status"] = "inconclusive"
            unit["why"] = (unit.get("why", "") + " solver cross-check failed: " + detail).strip()
    solver.close()
    if extra:
        unit.update(extra)
    return unit


# ------------------------------------------------------------------------------------------------
# C14: clean
# ------------------------------------------------------------------------------------------------
def replay_clean(ctx, cex, expected, tag):
    inp, exp = comps_to_str(cex), comps_to_str(expected)
    src = '''use rivia::prelude::*;
#[test]
fn replay_clean() {
    // counterexample found by mirsym: component sequence %r
    let got = sys::clean("%s");
    assert_eq!(got, PathBuf::from("%s"), "C14: clean(%s) differs from Go's path.Clean");
    assert_eq!(sys::clean(&got), got, "C14: clean is not idempotent on %s");
}
''' % (cex, inp, exp, inp, inp)
    r = native_test(src, ctx.logdir, "c14_" + tag)
    return src, r


def concrete_go_clean(ka):
    class Dummy:
        def decide(self, st, c):
            assert c.concrete
            return c.v
    comps = [Comp(I(k), I(a)) for k, a in ka]
    res = go_clean(Dummy(), None, comps)
    return [(c.kind.v, c.atom.v) for c in res]


def run_clean(ctx, prop, kmax):
    t0 = time.time()
    solver = ctx.solver("c14_clean")
    ex = new_executor(ctx, solver, M.PATH_MODELS, RIVIA_INLINE, max_block_visits=4 * kmax + 16)
    fn = ctx.mir.get(r"^fn sys::fs::path::clean\(_1: T\)")
    ob = Obl()
    unit = dict(status="pass", failures=[])
    seen_cex = set()
    for k in range(0, kmax + 1):
        comps, cons = sym_comps(solver, "c%d" % k, k)

        def cex_fn(extra, st_ref=[None]):
            return model_of(ex, st_ref[0], comps, extra)

        def on_path(st):
            if st.meta.get("stage", 1) == 1:
                cf = lambda extra: model_of(ex, st, comps, extra)
                if st.bound_hit:
                    ob.total += 1
                    ob.failures.append(dict(kind="bound", desc="loop bound hit: " + st.bound_hit, where="", cex=cf([])))
                    return
                if st.panic:
                    ob.total += 1
                    ob.failures.append(dict(kind="panic", desc="clean panics: " + st.panic, where="sys::fs::path::clean",
                                            cex=cf([])))
                    return
                res = st.retval
                if not isinstance(res, PathBufM):
                    raise Unsupported("clean returned %r" % (res,))
                exp = go_clean(ex, st, comps)
                ok = ob.prove(ex, st, "C14: clean(p) == Go path.Clean(p) on component sequences (k=%d)" % k,
                              seq_eq(res.comps, exp), cf)
                ob.prove(ex, st, "C14: result is never empty", B(len(res.comps) > 0), cf)
                if comps:
                    ob.prove(ex, st, "C14: absoluteness preserved",
                             B(True) if not res.comps else
                             __import__("lib.mirsym.values", fromlist=["b_eq"]).b_eq(
                                 i_eq(comps[0].kind, I(ROOT)), i_eq(res.comps[0].kind, I(ROOT))), cf)
                if len(ob.samples) < 3 and k == kmax:
                    m = cf([])
                    if m:
                        ob.samples.append(dict(obligation="clean == GoClean", path_condition_model=comps_to_str(m),
                                               expected=comps_to_str(concrete_go_clean(m))))
                # stage 2: idempotence, by executing the MIR again on the result
                st2 = ex.start(fn, [BoxRef(PathM(res.comps))])
                st2.pc = list(st.pc)
                st2.meta = dict(stage=2, first=list(res.comps), comps=comps)
                return [st2]
            else:
                cf = lambda extra: model_of(ex, st, comps, extra)
                if st.panic or st.bound_hit:
                    ob.total += 1
                    ob.failures.append(dict(kind="panic", desc="clean(clean(p)) panics or loops: %s" % (
                        st.panic or st.bound_hit), where="sys::fs::path::clean", cex=cf([])))
                    return
                ob.prove(ex, st, "C14: clean is idempotent (k=%d)" % k, seq_eq(st.retval.comps, st.meta["first"]), cf)

        st0 = ex.start(fn, [BoxRef(PathM(comps))])
        st0.pc = list(cons)
        ex.explore(st0, on_path)
    # failures -> native replay through the public API
    for f in ob.failures:
        if f["cex"] is None:
            unit["status"] = "inconclusive"
            unit["why"] = "no model for failing obligation " + f["desc"]
            continue
        key = tuple(f["cex"])
        if key in seen_cex:
            continue
        seen_cex.add(key)
        if len(seen_cex) > 3:
            continue
        if f["kind"] == "bound":
            unit["status"], unit["why"] = "inconclusive", f["desc"]
            continue
        exp = concrete_go_clean(f["cex"])
        src, r = replay_clean(ctx, f["cex"], exp, str(len(seen_cex)))
        reproduced = r["ran"] and r["failed"] > 0
        fail = dict(kind=f["kind"], desc='"%s" input=%r' % (f["desc"], comps_to_str(f["cex"])),
                    where="sys::fs::path::clean", reproduced=reproduced, replay_outcome=r["out"][-400:])
        if reproduced:
            fail["replay"] = save_replay(prop, "c14_clean", src, f["desc"], dict(failed=r["failed"]))
        unit["failures"].append(fail)
        unit["status"] = "violation"
    return finish(unit, ex, solver, ob, t0, dict(models_used="Components/PathBuf/Option sequence models (lib/mirsym/models.py)"))


@job("c14_clean_k5", ["C14", "C12"], "quick",
     functions=["sys::fs::path::clean (real MIR)", "OptionExt::has (real MIR, inlined)", "sys::fs::path::is_empty (real MIR, inlined)"],
     bounds="every component sequence of length 0..=5 obeying the Path::components contract, names unconstrained (3-name alphabet); loop bound 4k+16 block visits")
def c14_quick(ctx, prop):
    return run_clean(ctx, prop, 5)


@job("c14_clean_k8", ["C14", "C12"], "thorough",
     functions=["sys::fs::path::clean (real MIR)"],
     bounds="every component sequence of length 0..=8; loop bound 4k+16")
def c14_thorough(ctx, prop):
    return run_clean(ctx, prop, 8)


# ------------------------------------------------------------------------------------------------
# C16: relative
# ------------------------------------------------------------------------------------------------
def join_comps(ex, st, base, rel):
    """PathBuf::join on component sequences."""
    buf = PathBufM(list(base))
    for c in rel:
        M.pathbuf_push_comp(ex, st, buf, c)
    return buf.comps


def replay_relative(ctx, p, b, tag):
    ps, bs = comps_to_str(p), comps_to_str(b)
    src = '''use rivia::prelude::*;
#[test]
fn replay_relative() {
    // counterexample found by mirsym: path=%s base=%s
    let (p, b) = (PathBuf::from("%s"), PathBuf::from("%s"));
    let r = sys::relative(&p, &b).expect("C16: relative failed");
    assert_eq!(sys::clean(b.join(&r)), p, "C16: cleaning base joined with relative(path, base) does not yield path; got {:?}", r);
    if p != b {
        assert!(r.is_relative(), "C16: result {:?} is not relative", r);
        let comps: Vec<_> = r.components().collect();
        let ups = comps.iter().take_while(|c| **c == Component::ParentDir).count();
        assert!(comps[ups..].iter().all(|c| matches!(c, Component::Normal(_))), "C16: result {:?} is not ..* followed by normal components", r);
        let common = p.components().zip(b.components()).take_while(|(x, y)| x == y).count();
        assert_eq!(ups, b.components().count() - common, "C16: wrong number of .. in {:?}", r);
    }
}
''' % (ps, bs, ps, bs)
    return src, native_test(src, ctx.logdir, "c16_" + tag)


def run_relative(ctx, prop, nmax):
    t0 = time.time()
    solver = ctx.solver("c16_relative")
    ex = new_executor(ctx, solver, M.PATH_MODELS, RIVIA_INLINE, max_block_visits=4 * nmax + 24)
    fn = ctx.mir.get(r"^fn (sys::fs::path::)?relative\(_1: T, _2: U\)")
    ob = Obl()
    unit = dict(status="pass", failures=[])
    for lp in range(1, nmax + 2):
        for lb in range(1, nmax + 2):
            P, cp = sym_comps(solver, "p%d_%d" % (lp, lb), lp, clean_abs=True)
            Bc, cb = sym_comps(solver, "b%d_%d" % (lp, lb), lb, clean_abs=True)
            allc = P + Bc

            def on_path(st, P=P, Bc=Bc, allc=allc, lp=lp, lb=lb):
                cf = lambda extra: model_of(ex, st, allc, extra)
                if st.bound_hit or st.panic:
                    ob.total += 1
                    ob.failures.append(dict(kind="bound" if st.bound_hit else "panic",
                                            desc="relative panics/loops: %s" % (st.panic or st.bound_hit),
                                            where="sys::fs::path::relative", cex=cf([]), lens=(lp, lb)))
                    return
                r = st.retval
                if not (isinstance(r, Adt) and r.ty == "Result"):
                    raise Unsupported("relative returned %r" % (r,))
                if r.variant != 0:
                    ob.total += 1
                    ob.failures.append(dict(kind="functional", desc="C16: relative returned Err", where="", cex=cf([]),
                                            lens=(lp, lb)))
                    return
                res = r.fields[0].comps
                same = ex.decide(st, M.path_eq(PathM(P), PathM(Bc)))
                joined = go_clean(ex, st, join_comps(ex, st, Bc, res))
                ob.prove(ex, st, "C16: clean(base.join(relative(p, b))) == p (|p|=%d,|b|=%d)" % (lp, lb),
                         seq_eq(joined, P), cf) or ob.failures[-1].update(lens=(lp, lb))
                if not same:
                    # common prefix length
                    common = 0
                    while common < min(lp, lb) and ex.decide(st, comp_eq(P[common], Bc[common])):
                        common += 1
                    m = lb - common
                    shape = [i_eq(c.kind, I(PARENT)) for c in res[:m]] + [i_eq(c.kind, I(NORMAL)) for c in res[m:]]
                    ok = len(res) >= m
                    ob.prove(ex, st, "C16: result is '..' x %d followed only by normal components" % m,
                             b_and(*shape) if ok else B(False), cf) or ob.failures[-1].update(lens=(lp, lb))
                if len(ob.samples) < 3 and lp == nmax + 1 and lb == nmax + 1:
                    mm = cf([])
                    if mm:
                        ob.samples.append(dict(obligation="clean(b.join(relative(p,b))) == p",
                                               p=comps_to_str(mm[:lp]), b=comps_to_str(mm[lp:])))

            st0 = ex.start(fn, [BoxRef(PathM(P)), BoxRef(PathM(Bc))])
            st0.pc = cp + cb
            ex.explore(st0, on_path)
    seen = set()
    for f in ob.failures:
        if f["cex"] is None:
            unit["status"], unit["why"] = "inconclusive", "no model for failing obligation " + f["desc"]
            continue
        key = tuple(f["cex"])
        if key in seen or len(seen) >= 3:
            continue
        seen.add(key)
        if f["kind"] == "bound":
            unit["status"], unit["why"] = "inconclusive", f["desc"]
            continue
        lp = f["lens"][0]
        p, b = f["cex"][:lp], f["cex"][lp:]
        src, r = replay_relative(ctx, p, b, str(len(seen)))
        reproduced = r["ran"] and r["failed"] > 0
        fail = dict(kind=f["kind"], desc='"%s" path=%r base=%r' % (f["desc"], comps_to_str(p), comps_to_str(b)),
                    where="sys::fs::path::relative", reproduced=reproduced, replay_outcome=r["out"][-400:])
        if reproduced:
            fail["replay"] = save_replay(prop, "c16_relative", src, f["desc"], dict(failed=r["failed"]))
        unit["failures"].append(fail)
        unit["status"] = "violation"
    return finish(unit, ex, solver, ob, t0, dict(models_used="Components/PathBuf/Vec<Component> sequence models"))


@job("c16_relative_n4", ["C16", "C12"], "quick",
     functions=["sys::fs::path::relative (real MIR)"],
     bounds="all ordered pairs of clean absolute paths with 0..=4 normal components each over a 3-name alphabet (names symbolic); p == b included")
def c16_quick(ctx, prop):
    return run_relative(ctx, prop, 4)


@job("c16_relative_n7", ["C16", "C12"], "thorough",
     functions=["sys::fs::path::relative (real MIR)"],
     bounds="all ordered pairs of clean absolute paths with 0..=7 normal components each over a 3-name alphabet")
def c16_thorough(ctx, prop):
    return run_relative(ctx, prop, 7)


# ------------------------------------------------------------------------------------------------
# C13: transparent wrappers (Vfs, Stdfs shim, VfsEntry) — callees are uninterpreted functions
# ------------------------------------------------------------------------------------------------
from .mirsym.engine import strip_generics  # noqa: E402
from .mirsym.values import Opaque, INT_TYPES  # noqa: E402


def canon_callee(callee):
    """`<memfs::vfs::Memfs as sys::fs::vfs::VirtualFileSystem>::chown::<T>` -> `Memfs.VirtualFileSystem.chown`;
    `stdfs::Stdfs::chown::<T>` -> `Stdfs.chown`."""
    c = strip_generics(callee)
    while "::::" in c:
        c = c.replace("::::", "::")
    c = c.strip(":")
    m = re.match(r"^<(.+) as (.+)>::(\w+)$", callee_strip_tail(callee))
    if m:
        ty = strip_generics(m.group(1)).strip(":").split("::")[-1]
        tr = strip_generics(m.group(2)).strip(":").split("::")[-1]
        return "%s.%s.%s" % (ty, tr, m.group(3))
    parts = c.split("::")
    return ".".join(parts[-2:]) if len(parts) >= 2 else c


def callee_strip_tail(callee):
    """drop a trailing turbofish `::<..>`"""
    c = callee
    if c.endswith(">") and "::<" in c:
        depth = 0
        for i in range(len(c) - 1, -1, -1):
            if c[i] == ">" and not (i > 0 and c[i - 1] == "-"):
                depth += 1
            elif c[i] == "<":
                depth -= 1
                if depth == 0:
                    if c[:i].endswith("::"):
                        return c[:i - 2]
                    break
    return c


def sort_of_type(ty):
    ty = ty.strip()
    if ty == "bool":
        return "Bool"
    if ty in INT_TYPES:
        return "(_ BitVec %d)" % INT_TYPES[ty][0]
    return "V"


class Dispatch:
    def __init__(self, ctx, solver):
        self.ctx, self.solver = ctx, solver
        solver.declare_sort("V")
        solver.declare_sort("W")
        solver.declare("w0", "W")
        self.nuf = 0

    def term(self, ex, st, v):
        while isinstance(v, (Ref, BoxRef)):
            v = ex.deref(st, v)
        if isinstance(v, Opaque):
            return v.term, v.sort
        if isinstance(v, BV):
            return v.smt(), "(_ BitVec %d)" % v.w
        if isinstance(v, B):
            return v.smt(), "Bool"
        if isinstance(v, Adt):
            parts = [self.term(ex, st, f) for f in v.fields]
            name = "|mk.%s.%s|" % (v.ty, v.vname if v.vname is not None else (v.variant if v.variant is not None else ""))
            self.solver.declare_fun(name + "".join("") , [s for _, s in parts], "V") if parts else self.solver.declare(name, "V")
            if parts:
                return "(%s %s)" % (name, " ".join(t for t, _ in parts)), "V"
            return name, "V"
        raise Unsupported("cannot turn %r into a term" % (v,))

    def uf(self, canon, argterms, ret_sort):
        """value function and world function symbols for a callee; sorts are part of the symbol."""
        sig = "|%s:%s->%s|" % (canon, ",".join(s.replace(" ", "") for _, s in argterms), ret_sort.replace(" ", ""))
        wsig = "|w!%s:%s|" % (canon, ",".join(s.replace(" ", "") for _, s in argterms))
        self.solver.declare_fun(sig, ["W"] + [s for _, s in argterms], ret_sort)
        self.solver.declare_fun(wsig, ["W"] + [s for _, s in argterms], "W")
        return sig, wsig

    def on_uf(self, ex, st, callee, args, dest_ty):
        canon = canon_callee(callee)
        argterms = [self.term(ex, st, a) for a in args]
        rs = sort_of_type(dest_ty)
        sig, wsig = self.uf(canon, argterms, rs)
        w = st.meta["world"]
        at = " ".join([w] + [t for t, _ in argterms])
        st.meta["world"] = "(%s %s)" % (wsig, at)
        st.meta.setdefault("calls", []).append(canon)
        val = "(%s %s)" % (sig, at)
        if rs == "Bool":
            return B(val)
        if rs.startswith("(_ BitVec"):
            w_, sg = INT_TYPES[dest_ty.strip()]
            return BV(w_, sg, val)
        return Opaque("V", val)


def m_entry_upcast_identity(ex, st, args, callee, ty):
    return args[0]


DISPATCH_TARGETS = {
    # which impl block, how the wrapped backend is named, which trait
    "vfs": dict(src="src/sys/fs/vfs.rs", impl=r"^impl VirtualFileSystem for Vfs\b", trait="VirtualFileSystem", enum="Vfs",
                backend={"Memfs": "Memfs", "Stdfs": "Stdfs"}),
    "entry": dict(src="src/sys/fs/entry.rs", impl=r"^impl Entry for VfsEntry\b", trait="Entry", enum="VfsEntry",
                  backend={"Memfs": "MemfsEntry", "Stdfs": "StdfsEntry"}),
    "stdfs_shim": dict(src="src/sys/fs/stdfs/vfs.rs", impl=r"^impl VirtualFileSystem for Stdfs\b", trait="VirtualFileSystem",
                       enum=None, backend=None),
}


def unit_structs(ctx):
    if getattr(ctx, "_unit_structs", None) is None:
        import glob
        base = os.path.join(ctx.scratch, "src") if ctx.scratch else os.path.join(common.REPO, "src")
        us = set()
        for p in glob.glob(os.path.join(base, "**", "*.rs"), recursive=True):
            us.update(re.findall(r"^\s*pub(?:\([^)]*\))? struct (\w+);", open(p).read(), re.M))
        ctx._unit_structs = us
    return ctx._unit_structs


def impl_line(ctx, rel, pattern):
    p = os.path.join(ctx.scratch, rel) if ctx.scratch else os.path.join(common.REPO, rel)
    r = re.compile(pattern)
    for i, l in enumerate(open(p).read().split("\n")):
        if r.search(l):
            return i + 1
    raise Unsupported("impl block %s not found in %s" % (pattern, rel))


def trait_methods(ctx, rel, trait):
    """names of the methods declared by `pub trait <trait>` in the source (so a wrapper that is missing is noticed)."""
    p = os.path.join(ctx.scratch, rel) if ctx.scratch else os.path.join(common.REPO, rel)
    txt = open(p).read()
    m = re.search(r"pub trait %s\b.*?\n\}" % trait, txt, re.S)
    return re.findall(r"\n    fn (\w+)", m.group(0)) if m else []


def run_dispatch(ctx, prop, which):
    t0 = time.time()
    cfg = DISPATCH_TARGETS[which]
    solver = ctx.solver("c13_" + which)
    disp = Dispatch(ctx, solver)
    models = [(rx(r"^<sys::fs::entry::VfsEntry as sys::fs::entry::Entry>::upcast$"), m_entry_upcast_identity)] \
        if which == "entry" else []
    ex = new_executor(ctx, solver, models, [], allow_uf=True, on_uf=disp.on_uf, max_block_visits=4)
    line = impl_line(ctx, cfg["src"], cfg["impl"])
    heads = ctx.mir.find(r"<impl at %s:%d:" % (re.escape(cfg["src"]), line))
    ob = Obl()
    unit = dict(status="pass", failures=[])
    bad_methods = []
    seen_methods = set()
    for h in heads:
        fn = ctx.mir.function_at(h)
        name = fn.name.split(">::")[-1]
        seen_methods.add(name)
        variants = [0, 1] if cfg["enum"] else [None]
        for d in variants:
            # ---- arguments
            args, argterms = [], []
            self_ty = fn.params[0][1] if fn.params else ""
            if cfg["enum"]:
                vn = ctx.enums[cfg["enum"]][d]
                if cfg["backend"].get(vn, vn) in unit_structs(ctx):
                    inner = Adt(cfg["backend"].get(vn, vn), None, None, [])  # zero-sized payload (`pub struct Stdfs;`)
                else:
                    inner = Opaque("V", "inner%d" % d)
                    solver.declare("inner%d" % d, "V")
                self_adt = Adt(cfg["enum"], d, vn, [inner])
                args.append(BoxRef(self_adt) if self_ty.startswith("&") else self_adt)
            else:
                self_adt = Adt("Stdfs", None, None, [])
                args.append(BoxRef(self_adt) if self_ty.startswith("&") else self_adt)
            for i, (loc, ty) in enumerate(fn.params[1:], start=2):
                s = sort_of_type(ty)
                an = "arg_%s_%d" % (re.sub(r"\W", "_", name), i)
                solver.declare(an, s)
                if s == "Bool":
                    v = B(an)
                elif s.startswith("(_ BitVec"):
                    w_, sg = INT_TYPES[ty.strip()]
                    v = BV(w_, sg, an)
                else:
                    v = Opaque("V", an)
                args.append(v)
                argterms.append((an, s))

            def on_path(st, name=name, d=d, self_adt=self_adt, argterms=argterms, fn=fn):
                if st.panic or st.bound_hit:
                    ob.total += 1
                    ob.failures.append(dict(kind="panic", desc="wrapper %s panics/loops: %s" % (name, st.panic or st.bound_hit),
                                            where=fn.name, cex=None, method=name))
                    return
                rs = sort_of_type(fn.ret)
                rterm, rsort = disp.term(ex, st, st.retval)
                if cfg["enum"]:
                    sa = st.meta["self"]
                    vname = sa.vname
                    if name == "upcast" and which == "vfs":
                        pass
                    if vname is None:
                        ob.total += 1
                        ob.failures.append(dict(kind="functional", method=name, where=fn.name, cex=None,
                                                desc="C13: %s::%s arm %d never touches the wrapped value" % (cfg["enum"], name, d)))
                        return
                    backend = cfg["backend"].get(vname, vname)
                    canon = "%s.%s.%s" % (backend, cfg["trait"], name)
                    inner_t = disp.term(ex, st, sa.fields[0])
                    exp_args = [inner_t] + argterms
                else:
                    if name == "upcast":
                        # Stdfs::upcast(self) must be the variant constructor Vfs::Stdfs(self)
                        want, _ = disp.term(ex, st, Adt("Vfs", None, "Stdfs", [Adt("Stdfs", None, None, [])]))
                        f = B("(= %s %s)" % (rterm, want))
                        ob.prove(ex, st, "C13: Stdfs::upcast(self) == Vfs::Stdfs(self)", f) or ob.failures[-1].update(
                            method=name, where=fn.name)
                        return
                    canon = "Stdfs.%s" % name
                    exp_args = argterms
                sig, wsig = disp.uf(canon, exp_args, rs)
                at = " ".join(["w0"] + [t for t, _ in exp_args])
                arm = (" arm %s" % sa.vname) if cfg["enum"] else ""
                if rsort != rs:
                    f1 = B(False)
                else:
                    f1 = B("(= %s (%s %s))" % (rterm, sig, at))
                ok1 = ob.prove(ex, st, "C13: %s::%s%s returns exactly what %s returns for the same arguments" % (
                    cfg["enum"] or "impl VirtualFileSystem for Stdfs", name, arm, canon), f1)
                if not ok1:
                    ob.failures[-1].update(method=name, where=fn.name, calls=st.meta.get("calls", []))
                f2 = B("(= %s (%s %s))" % (st.meta["world"], wsig, at))
                ok2 = ob.prove(ex, st, "C13: %s::%s%s has exactly the effect of one call of %s" % (
                    cfg["enum"] or "Stdfs shim", name, arm, canon), f2)
                if not ok2:
                    ob.failures[-1].update(method=name, where=fn.name, calls=st.meta.get("calls", []))
                if len(ob.samples) < 3:
                    ob.samples.append(dict(obligation="(= %s (%s %s))" % (rterm, sig, at), wrapper=fn.name))

            st0 = ex.start(fn, args)
            st0.meta = dict(world="w0", self=self_adt, calls=[])
            # meta is deep-copied with the state, so keep self reachable through the frame as well
            ex.explore(st0, on_path)
    # every trait method must have a wrapper body in the dump (default methods are not overridden: fine)
    unit["notes"] = "%d wrapper bodies of `%s` executed (%s)" % (len(heads), cfg["impl"], ", ".join(sorted(seen_methods)))
    if ob.failures:
        # native replay: the differential fixture test covers every method of both traits on both backends
        src = open(os.path.join(common.VERIF, "kani", "c13_replay.rs")).read()
        r = native_test(src, ctx.logdir, "c13_" + which)
        reproduced = r["ran"] and r["failed"] > 0
        for f in ob.failures[:6]:
            fail = dict(kind=f["kind"], desc='"%s" (wrapper made calls %s)' % (f["desc"], f.get("calls")), where=f.get("where", ""),
                        reproduced=reproduced, replay_outcome=r["out"][-600:])
            if reproduced:
                fail["replay"] = save_replay(prop, "c13_" + which, src, f["desc"], dict(failed=r["failed"]))
            unit["failures"].append(fail)
        unit["status"] = "violation"
    return finish(unit, ex, solver, ob, t0, dict(models_used="callees are uninterpreted functions threaded with a world token"))


@job("c13_vfs_dispatch", ["C13"], "quick",
     functions=["every fn of `impl VirtualFileSystem for Vfs` (src/sys/fs/vfs.rs), both arms, real MIR"],
     bounds="loop-free: no bound; callees uninterpreted (any behaviour of the wrapped methods)")
def c13_vfs(ctx, prop):
    return run_dispatch(ctx, prop, "vfs")


@job("c13_stdfs_shim", ["C13"], "quick",
     functions=["every fn of `impl VirtualFileSystem for Stdfs` (src/sys/fs/stdfs/vfs.rs), real MIR"],
     bounds="loop-free: no bound; callees uninterpreted")
def c13_shim(ctx, prop):
    return run_dispatch(ctx, prop, "stdfs_shim")


@job("c13_entry_dispatch", ["C13"], "quick",
     functions=["every fn of `impl Entry for VfsEntry` (src/sys/fs/entry.rs), both arms, real MIR"],
     bounds="loop-free: no bound; callees uninterpreted; `<VfsEntry as Entry>::upcast` after follow modelled as identity")
def c13_entry(ctx, prop):
    return run_dispatch(ctx, prop, "entry")
