"""The mirsym jobs (one per encoded function family).  Registered into e2.JOBS on import."""
import os
import re
import time

from . import common
from .e2 import job, native_test, save_replay
from .mirsym import models as M
from .mirsym.engine import Executor, Fork, Unsupported
from .mirsym.models import CUR, NORMAL, PARENT, ROOT, Comp, PathBufM, PathM, comp_eq
from .mirsym.smt import parse_smt_int
from .mirsym.values import B, BV, I, Adt, BoxRef, Ref, Str, b_and, b_implies, b_not, b_or, i_eq

rx = re.compile


def find_generic(suffix):
    """finder for an inlinable rivia function whose header ends in `suffix(`."""
    def f(mir, callee, m):
        return mir.get(r"^fn (?:[\w:]+::)?%s\(" % re.escape(suffix))
    return f


RIVIA_INLINE = [
    (rx(r"^<Option<Component<'_>> as (?:core::option::)?OptionExt<Component<'_>>>::has::<Component<'_>>$"),
     lambda mir, c, m: mir.get(r"^fn core::option::<impl at src/core/option\.rs[^>]*>::has\(")),
    (rx(r"^(?:sys::fs::path::)?is_empty::<&PathBuf>$"), lambda mir, c, m: mir.get(r"^fn (sys::fs::path::)?is_empty\(")),
]


# ------------------------------------------------------------------------------------------------
# shared: symbolic component sequences
# ------------------------------------------------------------------------------------------------
def sym_comps(solver, prefix, k, absolute=None, clean_abs=False):
    """k symbolic components obeying the contract of `Path::components` on unix:
    RootDir only first, CurDir only first (and only when not rooted), no Prefix."""
    comps, cons = [], []
    for i in range(k):
        kn, an = "%s_k%d" % (prefix, i), "%s_a%d" % (prefix, i)
        solver.declare(kn, "Int")
        solver.declare(an, "Int")
        comps.append(Comp(I(kn), I(an)))
        if clean_abs:
            cons.append("(= %s %d)" % (kn, ROOT if i == 0 else NORMAL))
        elif i == 0:
            if absolute is True:
                cons.append("(= %s %d)" % (kn, ROOT))
            elif absolute is False:
                cons.append("(and (>= %s 2) (<= %s 4))" % (kn, kn))
            else:
                cons.append("(and (>= %s 1) (<= %s 4))" % (kn, kn))
        else:
            cons.append("(or (= %s %d) (= %s %d))" % (kn, PARENT, kn, NORMAL))
        cons.append("(and (>= %s 0) (< %s 3))" % (an, an))  # 3-name alphabet is enough to separate/identify
    return comps, cons


def comps_to_str(kinds_atoms):
    names = "abc"
    segs, s = [], ""
    for k, a in kinds_atoms:
        if k == ROOT:
            s = "/"
        elif k == CUR:
            segs.append(".")
        elif k == PARENT:
            segs.append("..")
        else:
            segs.append(names[a % 3] if a < 3 else "n%d" % a)
    return s + "/".join(segs)


def model_of(ex, st, comps, extra):
    """Concrete (kind, atom) list for the symbolic comps from a model of pc + extra."""
    terms = []
    for c in comps:
        if not c.kind.concrete:
            terms.append(c.kind.v)
        if not c.atom.concrete:
            terms.append(c.atom.v)
    r, model = ex.solver.check(st.pc + extra, want_model=terms or ["true"])
    if r != "sat":
        return None
    out = []
    for c in comps:
        k = c.kind.v if c.kind.concrete else parse_smt_int(model[c.kind.v])
        a = c.atom.v if c.atom.concrete else parse_smt_int(model[c.atom.v])
        out.append((k, a))
    return out


# ------------------------------------------------------------------------------------------------
# oracles on component sequences (use ex.decide, so they work on symbolic and concrete input alike)
# ------------------------------------------------------------------------------------------------
def go_clean(ex, st, comps):
    """Go's path.Clean restated on component sequences (written from the six documented rules)."""
    rooted = bool(comps) and ex.decide(st, i_eq(comps[0].kind, I(ROOT)))
    out = []
    for c in (comps[1:] if rooted else comps):
        if ex.decide(st, i_eq(c.kind, I(CUR))):
            continue  # rule 2: drop '.'
        if ex.decide(st, i_eq(c.kind, I(PARENT))):
            if out and not ex.decide(st, i_eq(out[-1].kind, I(PARENT))):
                out.pop()  # rule 3: inner '..' cancels the preceding normal component
            elif rooted:
                pass  # rule 4: '..' directly under the root disappears
            else:
                out.append(c)  # rule 5: leading '..' of a relative path is kept
        else:
            out.append(c)
    res = ([Comp(ROOT)] if rooted else []) + out
    if not res:
        res = [Comp(CUR)]  # rule: empty result is '.'
    return res


def seq_eq(a, b):
    if len(a) != len(b):
        return B(False)
    return b_and(*[comp_eq(x, y) for x, y in zip(a, b)])


class Obl:
    """Collects obligations of one job."""

    def __init__(self):
        self.total = 0
        self.discharged = 0
        self.failures = []  # dict(kind, desc, where, cex)
        self.samples = []
        self.vacuity_sat = 0

    def prove(self, ex, st, name, formula, cex_fn=None, kind="functional"):
        self.total += 1
        ok, _ = ex.valid(st, formula)
        if ok:
            self.discharged += 1
            return True
        cex = cex_fn(["(not %s)" % formula.smt()] if not formula.concrete else []) if cex_fn else None
        self.failures.append(dict(kind=kind, desc=name, where="", cex=cex))
        return False


PLANT = None  # when set to k, executors negate the comparison at the k-th static site (vacuity guard)


def new_executor(ctx, solver, models, inline, **kw):
    if not kw.get("allow_uf"):
        models = list(models) + M.make_combinators()
    ex = Executor(ctx.mir, solver, models, inline, enums=ctx.enums, **kw)
    ex.structs = getattr(ctx, "structs", None)
    ex.enum_hook = M.component_enum_hook
    ex.flip_site = PLANT
    return ex


def planted_mutants(ctx, run, sites=(0, 1, 2, 3)):
    """Non-vacuity: the same job, on small bounds, with one comparison of the executed MIR negated must
    produce failing obligations (for at least one of the first static comparison sites).  Replays are
    skipped.  Returns a short report string, raises Unsupported when no planted mutant is noticed."""
    global PLANT, native_test
    keep = native_test
    caught = []
    try:
        native_test = lambda *a, **k: dict(ran=False, failed=0, passed=0, out="(planted mutant: replay skipped)")
        for k in sites:
            PLANT = k
            try:
                u = run()
            except (Unsupported, Exception) as e:  # a mutant that derails the executor is also 'noticed'
                caught.append("site %d: executor stopped (%s)" % (k, type(e).__name__))
                continue
            failed = u.get("obligations", 0) - u.get("discharged", 0)
            if failed > 0 or u.get("status") != "pass":
                caught.append("site %d: %d obligations fail" % (k, failed))
    finally:
        PLANT = None
        native_test = keep
    if not caught:
        raise Unsupported("vacuity guard: no planted mutant (negated comparison) was noticed")
    return "%d of %d planted mutants noticed (%s)" % (len(caught), len(sites), "; ".join(caught))


def finish(unit, ex, solver, ob, t0, extra=None, cross=True):
    unit.update(obligations=ob.total, discharged=ob.discharged, queries=solver.nq, solver_s=solver.time,
                paths=ex.stats["paths"], forks=ex.stats["forks"], samples=ob.samples[:4],
                callees=sorted(ex.calls_seen))
    if cross:
        agree, detail, dt = solver.cross_check(cap_s=int(os.environ.get("VERIF_CVC5_CAP", "900" if os.environ.get("VERIF_TIER_RUNNING") != "thorough" else "5400")))
        unit["cross_check"] = "cvc5: %s (%.1fs)" % (detail, dt)
        if agree:
            try:
                os.remove(solver.logpath)  # the query log of an agreeing run is not kept (they are large); it stays on a disagreement / error
            except OSError:
                pass
        if agree is not True:
            unit["status"] = "inconclusive"
            unit["why"] = (unit.get("why", "") + " solver cross-check failed: " + detail).strip()
    solver.close()
    if extra:
        unit.update(extra)
    return unit


# ------------------------------------------------------------------------------------------------
# C14: clean
# ------------------------------------------------------------------------------------------------
def replay_clean(ctx, cex, expected, tag):
    inp, exp = comps_to_str(cex), comps_to_str(expected)
    src = '''use rivia::prelude::*;
#[test]
fn replay_clean() {
    // counterexample found by mirsym: component sequence %r
    let got = sys::clean("%s");
    assert_eq!(got, PathBuf::from("%s"), "C14: clean(%s) differs from Go's path.Clean");
    assert_eq!(sys::clean(&got), got, "C14: clean is not idempotent on %s");
}
''' % (cex, inp, exp, inp, inp)
    r = native_test(src, ctx.logdir, "c14_" + tag)
    return src, r


def concrete_go_clean(ka):
    class Dummy:
        def decide(self, st, c):
            assert c.concrete
            return c.v
    comps = [Comp(I(k), I(a)) for k, a in ka]
    res = go_clean(Dummy(), None, comps)
    return [(c.kind.v, c.atom.v) for c in res]


def run_clean(ctx, prop, kmax):
    t0 = time.time()
    solver = ctx.solver("c14_clean")
    ex = new_executor(ctx, solver, M.PATH_MODELS, RIVIA_INLINE, max_block_visits=4 * kmax + 16)
    fn = ctx.mir.get(r"^fn sys::fs::path::clean\(_1: T\)")
    ob = Obl()
    unit = dict(status="pass", failures=[])
    seen_cex = set()
    for k in range(0, kmax + 1):
        comps, cons = sym_comps(solver, "c%d" % k, k)

        def cex_fn(extra, st_ref=[None]):
            return model_of(ex, st_ref[0], comps, extra)

        def on_path(st):
            if st.meta.get("stage", 1) == 1:
                cf = lambda extra: model_of(ex, st, comps, extra)
                if st.bound_hit:
                    ob.total += 1
                    ob.failures.append(dict(kind="bound", desc="loop bound hit: " + st.bound_hit, where="", cex=cf([])))
                    return
                if st.panic:
                    ob.total += 1
                    ob.failures.append(dict(kind="panic", desc="clean panics: " + st.panic, where="sys::fs::path::clean",
                                            cex=cf([])))
                    return
                res = st.retval
                if not isinstance(res, PathBufM):
                    raise Unsupported("clean returned %r" % (res,))
                exp = go_clean(ex, st, comps)
                ok = ob.prove(ex, st, "C14: clean(p) == Go path.Clean(p) on component sequences (k=%d)" % k,
                              seq_eq(res.comps, exp), cf)
                ob.prove(ex, st, "C14: result is never empty", B(len(res.comps) > 0), cf)
                if comps:
                    ob.prove(ex, st, "C14: absoluteness preserved",
                             B(True) if not res.comps else
                             __import__("lib.mirsym.values", fromlist=["b_eq"]).b_eq(
                                 i_eq(comps[0].kind, I(ROOT)), i_eq(res.comps[0].kind, I(ROOT))), cf)
                if len(ob.samples) < 3 and k == kmax:
                    m = cf([])
                    if m:
                        ob.samples.append(dict(obligation="clean == GoClean", path_condition_model=comps_to_str(m),
                                               expected=comps_to_str(concrete_go_clean(m))))
                # stage 2: idempotence, by executing the MIR again on the result
                st2 = ex.start(fn, [BoxRef(PathM(res.comps))])
                st2.pc = list(st.pc)
                st2.meta = dict(stage=2, first=list(res.comps), comps=comps)
                return [st2]
            else:
                cf = lambda extra: model_of(ex, st, comps, extra)
                if st.panic or st.bound_hit:
                    ob.total += 1
                    ob.failures.append(dict(kind="panic", desc="clean(clean(p)) panics or loops: %s" % (
                        st.panic or st.bound_hit), where="sys::fs::path::clean", cex=cf([])))
                    return
                ob.prove(ex, st, "C14: clean is idempotent (k=%d)" % k, seq_eq(st.retval.comps, st.meta["first"]), cf)

        st0 = ex.start(fn, [BoxRef(PathM(comps))])
        st0.pc = list(cons)
        ex.explore(st0, on_path)
    # failures -> native replay through the public API
    for f in ob.failures:
        if f["cex"] is None:
            unit["status"] = "inconclusive"
            unit["why"] = "no model for failing obligation " + f["desc"]
            continue
        key = tuple(f["cex"])
        if key in seen_cex:
            continue
        seen_cex.add(key)
        if len(seen_cex) > 3:
            continue
        if f["kind"] == "bound":
            unit["status"], unit["why"] = "inconclusive", f["desc"]
            continue
        exp = concrete_go_clean(f["cex"])
        src, r = replay_clean(ctx, f["cex"], exp, str(len(seen_cex)))
        reproduced = r["ran"] and r["failed"] > 0
        fail = dict(kind=f["kind"], desc='"%s" input=%r' % (f["desc"], comps_to_str(f["cex"])),
                    where="sys::fs::path::clean", reproduced=reproduced, replay_outcome=r["out"][-400:])
        if reproduced:
            fail["replay"] = save_replay(prop, "c14_clean", src, f["desc"], dict(failed=r["failed"]))
        unit["failures"].append(fail)
        unit["status"] = "violation"
    return finish(unit, ex, solver, ob, t0, dict(models_used="Components/PathBuf/Option sequence models (lib/mirsym/models.py)"))


@job("c14_clean_k5", ["C14", "C12"], "quick",
     functions=["sys::fs::path::clean (real MIR)", "OptionExt::has (real MIR, inlined)", "sys::fs::path::is_empty (real MIR, inlined)"],
     bounds="every component sequence of length 0..=5 obeying the Path::components contract, names unconstrained (3-name alphabet); loop bound 4k+16 block visits")
def c14_quick(ctx, prop):
    u = run_clean(ctx, prop, 5)
    u["planted_mutants"] = planted_mutants(ctx, lambda: run_clean(ctx, prop, 3))
    return u


@job("c14_clean_k8", ["C14", "C12"], "thorough",
     functions=["sys::fs::path::clean (real MIR)"],
     bounds="every component sequence of length 0..=8; loop bound 4k+16")
def c14_thorough(ctx, prop):
    return run_clean(ctx, prop, 8)


# ------------------------------------------------------------------------------------------------
# C16: relative
# ------------------------------------------------------------------------------------------------
def join_comps(ex, st, base, rel):
    """PathBuf::join on component sequences."""
    buf = PathBufM(list(base))
    for c in rel:
        M.pathbuf_push_comp(ex, st, buf, c)
    return buf.comps


def replay_relative(ctx, p, b, tag):
    ps, bs = comps_to_str(p), comps_to_str(b)
    src = '''use rivia::prelude::*;
#[test]
fn replay_relative() {
    // counterexample found by mirsym: path=%s base=%s
    let (p, b) = (PathBuf::from("%s"), PathBuf::from("%s"));
    let r = sys::relative(&p, &b).expect("C16: relative failed");
    assert_eq!(sys::clean(b.join(&r)), p, "C16: cleaning base joined with relative(path, base) does not yield path; got {:?}", r);
    if p != b {
        assert!(r.is_relative(), "C16: result {:?} is not relative", r);
        let comps: Vec<_> = r.components().collect();
        let ups = comps.iter().take_while(|c| **c == Component::ParentDir).count();
        assert!(comps[ups..].iter().all(|c| matches!(c, Component::Normal(_))), "C16: result {:?} is not ..* followed by normal components", r);
        let common = p.components().zip(b.components()).take_while(|(x, y)| x == y).count();
        assert_eq!(ups, b.components().count() - common, "C16: wrong number of .. in {:?}", r);
    }
}
''' % (ps, bs, ps, bs)
    return src, native_test(src, ctx.logdir, "c16_" + tag)


def run_relative(ctx, prop, nmax):
    t0 = time.time()
    solver = ctx.solver("c16_relative")
    ex = new_executor(ctx, solver, M.PATH_MODELS, RIVIA_INLINE, max_block_visits=4 * nmax + 24)
    fn = ctx.mir.get(r"^fn (sys::fs::path::)?relative\(_1: T, _2: U\)")
    ob = Obl()
    unit = dict(status="pass", failures=[])
    for lp in range(1, nmax + 2):
        for lb in range(1, nmax + 2):
            P, cp = sym_comps(solver, "p%d_%d" % (lp, lb), lp, clean_abs=True)
            Bc, cb = sym_comps(solver, "b%d_%d" % (lp, lb), lb, clean_abs=True)
            allc = P + Bc

            def on_path(st, P=P, Bc=Bc, allc=allc, lp=lp, lb=lb):
                cf = lambda extra: model_of(ex, st, allc, extra)
                if st.bound_hit or st.panic:
                    ob.total += 1
                    ob.failures.append(dict(kind="bound" if st.bound_hit else "panic",
                                            desc="relative panics/loops: %s" % (st.panic or st.bound_hit),
                                            where="sys::fs::path::relative", cex=cf([]), lens=(lp, lb)))
                    return
                r = st.retval
                if not (isinstance(r, Adt) and r.ty == "Result"):
                    raise Unsupported("relative returned %r" % (r,))
                if r.variant != 0:
                    ob.total += 1
                    ob.failures.append(dict(kind="functional", desc="C16: relative returned Err", where="", cex=cf([]),
                                            lens=(lp, lb)))
                    return
                res = r.fields[0].comps
                same = ex.decide(st, M.path_eq(PathM(P), PathM(Bc)))
                joined = go_clean(ex, st, join_comps(ex, st, Bc, res))
                ob.prove(ex, st, "C16: clean(base.join(relative(p, b))) == p (|p|=%d,|b|=%d)" % (lp, lb),
                         seq_eq(joined, P), cf) or ob.failures[-1].update(lens=(lp, lb))
                if not same:
                    # common prefix length
                    common = 0
                    while common < min(lp, lb) and ex.decide(st, comp_eq(P[common], Bc[common])):
                        common += 1
                    m = lb - common
                    shape = [i_eq(c.kind, I(PARENT)) for c in res[:m]] + [i_eq(c.kind, I(NORMAL)) for c in res[m:]]
                    ok = len(res) >= m
                    ob.prove(ex, st, "C16: result is '..' x %d followed only by normal components" % m,
                             b_and(*shape) if ok else B(False), cf) or ob.failures[-1].update(lens=(lp, lb))
                if len(ob.samples) < 3 and lp == nmax + 1 and lb == nmax + 1:
                    mm = cf([])
                    if mm:
                        ob.samples.append(dict(obligation="clean(b.join(relative(p,b))) == p",
                                               p=comps_to_str(mm[:lp]), b=comps_to_str(mm[lp:])))

            st0 = ex.start(fn, [BoxRef(PathM(P)), BoxRef(PathM(Bc))])
            st0.pc = cp + cb
            ex.explore(st0, on_path)
    seen = set()
    for f in ob.failures:
        if f["cex"] is None:
            unit["status"], unit["why"] = "inconclusive", "no model for failing obligation " + f["desc"]
            continue
        key = tuple(f["cex"])
        if key in seen or len(seen) >= 3:
            continue
        seen.add(key)
        if f["kind"] == "bound":
            unit["status"], unit["why"] = "inconclusive", f["desc"]
            continue
        lp = f["lens"][0]
        p, b = f["cex"][:lp], f["cex"][lp:]
        src, r = replay_relative(ctx, p, b, str(len(seen)))
        reproduced = r["ran"] and r["failed"] > 0
        fail = dict(kind=f["kind"], desc='"%s" path=%r base=%r' % (f["desc"], comps_to_str(p), comps_to_str(b)),
                    where="sys::fs::path::relative", reproduced=reproduced, replay_outcome=r["out"][-400:])
        if reproduced:
            fail["replay"] = save_replay(prop, "c16_relative", src, f["desc"], dict(failed=r["failed"]))
        unit["failures"].append(fail)
        unit["status"] = "violation"
    return finish(unit, ex, solver, ob, t0, dict(models_used="Components/PathBuf/Vec<Component> sequence models"))


@job("c16_relative_n4", ["C16", "C12"], "quick",
     functions=["sys::fs::path::relative (real MIR)"],
     bounds="all ordered pairs of clean absolute paths with 0..=4 normal components each over a 3-name alphabet (names symbolic); p == b included")
def c16_quick(ctx, prop):
    u = run_relative(ctx, prop, 4)
    u["planted_mutants"] = planted_mutants(ctx, lambda: run_relative(ctx, prop, 2))
    return u


@job("c16_relative_n7", ["C16", "C12"], "thorough",
     functions=["sys::fs::path::relative (real MIR)"],
     bounds="all ordered pairs of clean absolute paths with 0..=7 normal components each over a 3-name alphabet")
def c16_thorough(ctx, prop):
    return run_relative(ctx, prop, 7)


# ------------------------------------------------------------------------------------------------
# C13: transparent wrappers (Vfs, Stdfs shim, VfsEntry) — callees are uninterpreted functions
# ------------------------------------------------------------------------------------------------
from .mirsym.engine import strip_generics  # noqa: E402
from .mirsym.values import Opaque, INT_TYPES  # noqa: E402


def canon_callee(callee):
    """`<memfs::vfs::Memfs as sys::fs::vfs::VirtualFileSystem>::chown::<T>` -> `Memfs.VirtualFileSystem.chown`;
    `stdfs::Stdfs::chown::<T>` -> `Stdfs.chown`."""
    c = strip_generics(callee)
    while "::::" in c:
        c = c.replace("::::", "::")
    c = c.strip(":")
    m = re.match(r"^<(.+) as (.+)>::(\w+)$", callee_strip_tail(callee))
    if m:
        ty = strip_generics(m.group(1)).strip(":").split("::")[-1]
        tr = strip_generics(m.group(2)).strip(":").split("::")[-1]
        return "%s.%s.%s" % (ty, tr, m.group(3))
    parts = c.split("::")
    return ".".join(parts[-2:]) if len(parts) >= 2 else c


def callee_strip_tail(callee):
    """drop a trailing turbofish `::<..>`"""
    c = callee
    if c.endswith(">") and "::<" in c:
        depth = 0
        for i in range(len(c) - 1, -1, -1):
            if c[i] == ">" and not (i > 0 and c[i - 1] == "-"):
                depth += 1
            elif c[i] == "<":
                depth -= 1
                if depth == 0:
                    if c[:i].endswith("::"):
                        return c[:i - 2]
                    break
    return c


def sort_of_type(ty):
    ty = ty.strip()
    if ty == "bool":
        return "Bool"
    if ty in INT_TYPES:
        return "(_ BitVec %d)" % INT_TYPES[ty][0]
    return "V"


class Dispatch:
    def __init__(self, ctx, solver):
        self.ctx, self.solver = ctx, solver
        solver.declare_sort("V")
        solver.declare_sort("W")
        solver.declare("w0", "W")
        self.nuf = 0

    def term(self, ex, st, v):
        while isinstance(v, (Ref, BoxRef)):
            v = ex.deref(st, v)
        if isinstance(v, Opaque):
            return v.term, v.sort
        if isinstance(v, BV):
            return v.smt(), "(_ BitVec %d)" % v.w
        if isinstance(v, B):
            return v.smt(), "Bool"
        from .mirsym.engine import FnItem
        if isinstance(v, FnItem):
            # a closure / fn item handed to a callee: an opaque value identified by its source span
            name = "|fn!%s|" % re.sub(r"[^\w:.@-]", "_", v.text)[:80]
            self.solver.declare(name, "V")
            return name, "V"
        if isinstance(v, Adt):
            parts = [self.term(ex, st, f) for f in v.fields]
            name = "|mk.%s.%s|" % (v.ty, v.vname if v.vname is not None else (v.variant if v.variant is not None else ""))
            self.solver.declare_fun(name + "".join("") , [s for _, s in parts], "V") if parts else self.solver.declare(name, "V")
            if parts:
                return "(%s %s)" % (name, " ".join(t for t, _ in parts)), "V"
            return name, "V"
        raise Unsupported("cannot turn %r into a term" % (v,))

    def uf(self, canon, argterms, ret_sort):
        """value function and world function symbols for a callee; sorts are part of the symbol."""
        sig = "|%s:%s->%s|" % (canon, ",".join(s.replace(" ", "") for _, s in argterms), ret_sort.replace(" ", ""))
        wsig = "|w!%s:%s|" % (canon, ",".join(s.replace(" ", "") for _, s in argterms))
        self.solver.declare_fun(sig, ["W"] + [s for _, s in argterms], ret_sort)
        self.solver.declare_fun(wsig, ["W"] + [s for _, s in argterms], "W")
        return sig, wsig

    def on_uf(self, ex, st, callee, args, dest_ty):
        canon = canon_callee(callee)
        argterms = [self.term(ex, st, a) for a in args]
        rs = sort_of_type(dest_ty)
        sig, wsig = self.uf(canon, argterms, rs)
        w = st.meta["world"]
        at = " ".join([w] + [t for t, _ in argterms])
        st.meta["world"] = "(%s %s)" % (wsig, at)
        st.meta.setdefault("calls", []).append(canon)
        val = "(%s %s)" % (sig, at)
        if rs == "Bool":
            return B(val)
        if rs.startswith("(_ BitVec"):
            w_, sg = INT_TYPES[dest_ty.strip()]
            return BV(w_, sg, val)
        return Opaque("V", val)


def m_entry_upcast_identity(ex, st, args, callee, ty):
    return args[0]


DISPATCH_TARGETS = {
    # which impl block, how the wrapped backend is named, which trait
    "vfs": dict(src="src/sys/fs/vfs.rs", impl=r"^impl VirtualFileSystem for Vfs\b", trait="VirtualFileSystem", enum="Vfs",
                backend={"Memfs": "Memfs", "Stdfs": "Stdfs"}),
    "entry": dict(src="src/sys/fs/entry.rs", impl=r"^impl Entry for VfsEntry\b", trait="Entry", enum="VfsEntry",
                  backend={"Memfs": "MemfsEntry", "Stdfs": "StdfsEntry"}),
    "stdfs_shim": dict(src="src/sys/fs/stdfs/vfs.rs", impl=r"^impl VirtualFileSystem for Stdfs\b", trait="VirtualFileSystem",
                       enum=None, backend=None),
}


def unit_structs(ctx):
    if getattr(ctx, "_unit_structs", None) is None:
        import glob
        base = os.path.join(ctx.scratch, "src") if ctx.scratch else os.path.join(common.REPO, "src")
        us = set()
        for p in glob.glob(os.path.join(base, "**", "*.rs"), recursive=True):
            us.update(re.findall(r"^\s*pub(?:\([^)]*\))? struct (\w+);", open(p).read(), re.M))
        ctx._unit_structs = us
    return ctx._unit_structs


def impl_line(ctx, rel, pattern):
    p = os.path.join(ctx.scratch, rel) if ctx.scratch else os.path.join(common.REPO, rel)
    r = re.compile(pattern)
    for i, l in enumerate(open(p).read().split("\n")):
        if r.search(l):
            return i + 1
    raise Unsupported("impl block %s not found in %s" % (pattern, rel))


def trait_methods(ctx, rel, trait):
    """names of the methods declared by `pub trait <trait>` in the source (so a wrapper that is missing is noticed)."""
    p = os.path.join(ctx.scratch, rel) if ctx.scratch else os.path.join(common.REPO, rel)
    txt = open(p).read()
    m = re.search(r"pub trait %s\b.*?\n\}" % trait, txt, re.S)
    return re.findall(r"\n    fn (\w+)", m.group(0)) if m else []


def run_dispatch(ctx, prop, which):
    t0 = time.time()
    cfg = DISPATCH_TARGETS[which]
    solver = ctx.solver("c13_" + which)
    disp = Dispatch(ctx, solver)
    models = [(rx(r"^<(?:sys::fs::entry::)?VfsEntry as (?:sys::fs::entry::)?Entry>::upcast$"), m_entry_upcast_identity)] \
        if which == "entry" else []
    ex = new_executor(ctx, solver, models, [], allow_uf=True, on_uf=disp.on_uf, max_block_visits=4)
    line = impl_line(ctx, cfg["src"], cfg["impl"])
    heads = ctx.mir.find(r"<impl at %s:%d:" % (re.escape(cfg["src"]), line))
    ob = Obl()
    unit = dict(status="pass", failures=[])
    bad_methods = []
    seen_methods = set()
    for h in heads:
        if "::{closure#" in ctx.mir.lines[h]:
            continue  # closure bodies are not trait methods; they only run when a wrapper calls them
        fn = ctx.mir.function_at(h)
        name = fn.name.split(">::")[-1]
        seen_methods.add(name)
        variants = [0, 1] if cfg["enum"] else [None]
        for d in variants:
            # ---- arguments
            args, argterms = [], []
            self_ty = fn.params[0][1] if fn.params else ""
            if cfg["enum"]:
                vn = ctx.enums[cfg["enum"]][d]
                if cfg["backend"].get(vn, vn) in unit_structs(ctx):
                    inner = Adt(cfg["backend"].get(vn, vn), None, None, [])  # zero-sized payload (`pub struct Stdfs;`)
                else:
                    inner = Opaque("V", "inner%d" % d)
                    solver.declare("inner%d" % d, "V")
                self_adt = Adt(cfg["enum"], d, vn, [inner])
                args.append(BoxRef(self_adt) if self_ty.startswith("&") else self_adt)
            else:
                self_adt = Adt("Stdfs", None, None, [])
                args.append(BoxRef(self_adt) if self_ty.startswith("&") else self_adt)
            for i, (loc, ty) in enumerate(fn.params[1:], start=2):
                s = sort_of_type(ty)
                an = "arg_%s_%d" % (re.sub(r"\W", "_", name), i)
                solver.declare(an, s)
                if s == "Bool":
                    v = B(an)
                elif s.startswith("(_ BitVec"):
                    w_, sg = INT_TYPES[ty.strip()]
                    v = BV(w_, sg, an)
                else:
                    v = Opaque("V", an)
                args.append(v)
                argterms.append((an, s))

            def on_path(st, name=name, d=d, self_adt=self_adt, argterms=argterms, fn=fn):
                if st.panic or st.bound_hit:
                    ob.total += 1
                    ob.failures.append(dict(kind="panic", desc="wrapper %s panics/loops: %s" % (name, st.panic or st.bound_hit),
                                            where=fn.name, cex=None, method=name))
                    return
                rs = sort_of_type(fn.ret)
                rterm, rsort = disp.term(ex, st, st.retval)
                if cfg["enum"]:
                    sa = st.meta["self"]
                    vname = sa.vname
                    if name == "upcast" and which == "vfs":
                        pass
                    if vname is None:
                        ob.total += 1
                        ob.failures.append(dict(kind="functional", method=name, where=fn.name, cex=None,
                                                desc="C13: %s::%s arm %d never touches the wrapped value" % (cfg["enum"], name, d)))
                        return
                    backend = cfg["backend"].get(vname, vname)
                    canon = "%s.%s.%s" % (backend, cfg["trait"], name)
                    inner_t = disp.term(ex, st, sa.fields[0])
                    exp_args = [inner_t] + argterms
                else:
                    if name == "upcast":
                        # Stdfs::upcast(self) must be the variant constructor Vfs::Stdfs(self)
                        want, _ = disp.term(ex, st, Adt("Vfs", None, "Stdfs", [Adt("Stdfs", None, None, [])]))
                        f = B("(= %s %s)" % (rterm, want))
                        ob.prove(ex, st, "C13: Stdfs::upcast(self) == Vfs::Stdfs(self)", f) or ob.failures[-1].update(
                            method=name, where=fn.name)
                        return
                    canon = "Stdfs.%s" % name
                    exp_args = argterms
                sig, wsig = disp.uf(canon, exp_args, rs)
                at = " ".join(["w0"] + [t for t, _ in exp_args])
                arm = (" arm %s" % sa.vname) if cfg["enum"] else ""
                if rsort != rs:
                    f1 = B(False)
                else:
                    f1 = B("(= %s (%s %s))" % (rterm, sig, at))
                ok1 = ob.prove(ex, st, "C13: %s::%s%s returns exactly what %s returns for the same arguments" % (
                    cfg["enum"] or "impl VirtualFileSystem for Stdfs", name, arm, canon), f1)
                if not ok1:
                    ob.failures[-1].update(method=name, where=fn.name, calls=st.meta.get("calls", []))
                f2 = B("(= %s (%s %s))" % (st.meta["world"], wsig, at))
                ok2 = ob.prove(ex, st, "C13: %s::%s%s has exactly the effect of one call of %s" % (
                    cfg["enum"] or "Stdfs shim", name, arm, canon), f2)
                if not ok2:
                    ob.failures[-1].update(method=name, where=fn.name, calls=st.meta.get("calls", []))
                if len(ob.samples) < 3:
                    ob.samples.append(dict(obligation="(= %s (%s %s))" % (rterm, sig, at), wrapper=fn.name))

            st0 = ex.start(fn, args)
            st0.meta = dict(world="w0", self=self_adt, calls=[])
            # meta is deep-copied with the state, so keep self reachable through the frame as well
            ex.explore(st0, on_path)
    # every trait method must have a wrapper body in the dump (default methods are not overridden: fine)
    unit["notes"] = "%d wrapper bodies of `%s` executed (%s)" % (len(heads), cfg["impl"], ", ".join(sorted(seen_methods)))
    if ob.failures:
        # native replay: the differential fixture test covers every method of both traits on both backends
        src = open(os.path.join(common.VERIF, "kani", "c13_replay.rs")).read()
        r = native_test(src, ctx.logdir, "c13_" + which)
        reproduced = r["ran"] and r["failed"] > 0
        for f in ob.failures[:6]:
            fail = dict(kind=f["kind"], desc='"%s" (wrapper made calls %s)' % (f["desc"], f.get("calls")), where=f.get("where", ""),
                        reproduced=reproduced, replay_outcome=r["out"][-600:])
            if reproduced:
                fail["replay"] = save_replay(prop, "c13_" + which, src, f["desc"], dict(failed=r["failed"]))
            unit["failures"].append(fail)
        unit["status"] = "violation"
    return finish(unit, ex, solver, ob, t0, dict(models_used="callees are uninterpreted functions threaded with a world token"))


@job("c13_vfs_dispatch", ["C13"], "quick",
     functions=["every fn of `impl VirtualFileSystem for Vfs` (src/sys/fs/vfs.rs), both arms, real MIR"],
     bounds="loop-free: no bound; callees uninterpreted (any behaviour of the wrapped methods)")
def c13_vfs(ctx, prop):
    return run_dispatch(ctx, prop, "vfs")


@job("c13_stdfs_shim", ["C13"], "quick",
     functions=["every fn of `impl VirtualFileSystem for Stdfs` (src/sys/fs/stdfs/vfs.rs), real MIR"],
     bounds="loop-free: no bound; callees uninterpreted")
def c13_shim(ctx, prop):
    return run_dispatch(ctx, prop, "stdfs_shim")


@job("c13_entry_dispatch", ["C13"], "quick",
     functions=["every fn of `impl Entry for VfsEntry` (src/sys/fs/entry.rs), both arms, real MIR"],
     bounds="loop-free: no bound; callees uninterpreted; `<VfsEntry as Entry>::upcast` after follow modelled as identity")
def c13_entry(ctx, prop):
    return run_dispatch(ctx, prop, "entry")


# ------------------------------------------------------------------------------------------------
# C18: XDG lookups, parse_paths, getrids, Memfs/Stdfs::config_dir
# ------------------------------------------------------------------------------------------------
XDG_INLINE = [
    (rx(r"^config_dir$"), lambda mir, c, m: mir.get(r"^fn config_dir\(\)")),
    (rx(r"^sys_config_dirs$"), lambda mir, c, m: mir.get(r"^fn sys_config_dirs\(\)")),
    (rx(r"^(crate::)?(?:sys::user::)?config_dir$"), lambda mir, c, m: mir.get(r"^fn config_dir\(\)")),
    (rx(r"^(crate::)?(?:sys::user::)?sys_config_dirs$"), lambda mir, c, m: mir.get(r"^fn sys_config_dirs\(\)")),
    (rx(r"^(?:sys::user::)?home_dir$"), lambda mir, c, m: mir.get(r"^fn sys::user::home_dir\(\)")),
    (rx(r"^home_dir$"), lambda mir, c, m: mir.get(r"^fn sys::user::home_dir\(\)")),
    (rx(r"^(?:sys::fs::path::)?home_dir$"), lambda mir, c, m: mir.get(r"^fn sys::fs::path::home_dir\(\)")),
    (rx(r"^(?:sys::fs::path::)?parse_paths::<String>$"), lambda mir, c, m: mir.get(r"^fn sys::fs::path::parse_paths\(")),
]

# The oracle table, written from the XDG Base Directory text / the property statement.
XDG_SINGLE = {
    "config_dir": ("XDG_CONFIG_HOME", [".config"]),
    "cache_dir": ("XDG_CACHE_HOME", [".cache"]),
    "data_dir": ("XDG_DATA_HOME", [".local", "share"]),
    "state_dir": ("XDG_STATE_HOME", [".local", "state"]),
}
XDG_LIST = {
    "sys_config_dirs": ("XDG_CONFIG_DIRS", ["/etc/xdg"]),
    "sys_data_dirs": ("XDG_DATA_DIRS", ["/usr/local/share", "/usr/share"]),
    "path_dirs": ("PATH", None),
}


class XdgOracle:
    def __init__(self, ex, st, env):
        self.ex, self.st, self.env = ex, st, env

    def isset(self, var):
        s, _ = self.env.var_syms(var)
        return self.ex.decide(self.st, s)

    def home(self):
        return "(pathof val_HOME)" if self.isset("HOME") else None

    def single(self, fn):
        var, suffix = XDG_SINGLE[fn]
        if self.isset(var):
            return "(pathof val_%s)" % var
        h = self.home()
        if h is None:
            return None
        for s in suffix:
            h = "(mash %s %s)" % (h, self.env.lit(s).smt())
        return h

    def runtime(self):
        if self.isset("XDG_RUNTIME_DIR"):
            return "(pathof val_XDG_RUNTIME_DIR)"
        return "(pathof %s)" % self.env.lit("/tmp").smt()

    def listed(self, var):
        """non-empty segments of the variable in order (None when unset)"""
        if not self.isset(var):
            return None
        self.env.var_syms(var)
        n = 1
        while n < self.env.max_segs and not self.ex.decide(self.st, i_eq(I("nseg_" + var), I(n))):
            n += 1
        out = []
        for j in range(n):
            if not self.ex.decide(self.st, B("segempty_%s_%d" % (var, j))):
                out.append("(pathof seg_%s_%d)" % (var, j))
        return out

    def dirs(self, fn):
        var, default = XDG_LIST[fn]
        l = self.listed(var)
        if default is None:
            return l  # PATH: no default in the statement; unset -> Err is accepted
        if not l:
            return ["(pathof %s)" % self.env.lit(d).smt() for d in default]
        return l


def xdg_result_terms(v):
    """normalise a returned value into ('ok'|'err'|'none', payload-terms)"""
    if isinstance(v, M.PT):
        return "ok", [v.term]
    if isinstance(v, Adt) and v.ty == "Result":
        if v.variant == 1:
            return "err", []
        p = v.fields[0]
        if isinstance(p, M.PT):
            return "ok", [p.term]
        if isinstance(p, M.VecM):
            return "ok", [x.term for x in p.items]
    if isinstance(v, Adt) and v.ty == "Option":
        if v.variant == 0:
            return "none", []
        return "ok", [v.fields[0].term]
    raise Unsupported("unexpected return value %r" % (v,))


def xdg_model(ex, st, env, extra, extra_terms=()):
    terms = []
    for v in sorted(env.vars):
        terms += ["set_" + v, "nseg_" + v] + ["segempty_%s_%d" % (v, j) for j in range(env.max_segs)]
    terms += list(extra_terms)
    r, model = ex.solver.check(st.pc + extra, want_model=terms)
    if r != "sat":
        return None
    return {k: parse_smt_int(v) for k, v in model.items()}


def concrete_env(env, model):
    """model -> {VAR: None | str}; every value/segment gets a distinct readable spelling"""
    out = {}
    for v in sorted(env.vars):
        if not model.get("set_" + v):
            out[v] = None
            continue
        n = model.get("nseg_" + v, 1)
        segs = []
        for j in range(n):
            segs.append("" if model.get("segempty_%s_%d" % (v, j)) else "/s/%s/%d" % (v.lower(), j))
        out[v] = ":".join(segs)
    return out


RUST_ENV_PRELUDE = '''use rivia::prelude::*;
fn setenv(k: &str, v: Option<&str>) {
    match v {
        Some(x) => std::env::set_var(k, x),
        None => std::env::remove_var(k),
    }
}
'''


def py_expected(fn, cenv):
    """Concrete reference semantics (from the statement) for the replay's expected value."""
    def listed(var):
        v = cenv.get(var)
        if v is None:
            return None
        return [s for s in v.split(":") if s != ""]
    if fn in XDG_SINGLE:
        var, suffix = XDG_SINGLE[fn]
        if cenv.get(var) is not None:
            return cenv[var]
        if cenv.get("HOME") is None:
            return None
        return "/".join([cenv["HOME"].rstrip("/")] + suffix)
    if fn == "runtime_dir":
        return cenv.get("XDG_RUNTIME_DIR") if cenv.get("XDG_RUNTIME_DIR") is not None else "/tmp"
    var, default = XDG_LIST[fn]
    l = listed(var)
    if default is None:
        return l
    return l if l else default


def run_xdg(ctx, prop, max_segs):
    t0 = time.time()
    solver = ctx.solver("c18_xdg")
    env = M.Env(solver, max_segs)
    models = M.make_env_models(env)
    ex = new_executor(ctx, solver, models, XDG_INLINE, max_block_visits=4 * max_segs + 24)
    ob = Obl()
    unit = dict(status="pass", failures=[])
    pending = []  # (fn, model, desc)

    def fail(fn, st, desc, extra, kind="functional", extra_terms=()):
        ob.failures.append(dict(kind=kind, desc=desc, where="sys::user::" + fn, cex=xdg_model(ex, st, env, extra, extra_terms),
                                fn=fn))

    def check_eq(st, fn, got, want, what):
        ob.total += 1
        if len(got) != len(want):
            fail(fn, st, "C18: %s: %s has %d entries, specification says %d" % (fn, what, len(got), len(want)), [])
            return
        if not got:
            ob.discharged += 1
            return
        f = "(and %s)" % " ".join("(= %s %s)" % (a, b) for a, b in zip(got, want))
        if ex.solver.check(st.pc + ["(not %s)" % f]) == "unsat":
            ob.discharged += 1
        else:
            fail(fn, st, "C18: %s: %s differs from the XDG specification" % (fn, what), ["(not %s)" % f])

    # ---- single-valued lookups and lists
    targets = [(f, r"^fn %s\(\)" % f) for f in list(XDG_SINGLE) + ["runtime_dir"] + list(XDG_LIST)]
    for fn_name, hdr in targets:
        fn = ctx.mir.get(hdr)

        def on_path(st, fn_name=fn_name):
            if st.panic or st.bound_hit:
                ob.total += 1
                fail(fn_name, st, "%s panics/loops: %s" % (fn_name, st.panic or st.bound_hit), [],
                     kind="panic" if st.panic else "bound")
                return
            o = XdgOracle(ex, st, env)
            kind, got = xdg_result_terms(st.retval)
            if fn_name in XDG_SINGLE:
                want = o.single(fn_name)
            elif fn_name == "runtime_dir":
                want = o.runtime()
            else:
                want = o.dirs(fn_name)
            if want is None:
                ob.total += 1
                if kind == "err":
                    ob.discharged += 1
                elif fn_name == "path_dirs":
                    ob.discharged += 1
                else:
                    fail(fn_name, st, "C18: %s returns a value although neither the variable nor HOME is set" % fn_name, [])
                return
            if kind != "ok":
                ob.total += 1
                fail(fn_name, st, "C18: %s fails although the environment determines a value" % fn_name, [])
                return
            check_eq(st, fn_name, got, want if isinstance(want, list) else [want], "result")
            if len(ob.samples) < 4:
                ob.samples.append(dict(function=fn_name, path_condition=st.pc[-3:], obligation="(= %s %s)" % (got, want)))

        ex.explore(ex.start(fn, []), on_path)

    # ---- parse_paths on its own argument (not via the environment)
    # covered through sys_config_dirs/sys_data_dirs/path_dirs above (same MIR body, inlined)

    # ---- getrids
    fn = ctx.mir.get(r"^fn getrids\(_1: u32, _2: u32\)")
    solver.declare("uid", "(_ BitVec 32)")
    solver.declare("gid", "(_ BitVec 32)")

    def on_rids(st):
        if st.panic or st.bound_hit:
            ob.total += 1
            fail("getrids", st, "getrids panics: %s" % (st.panic or st.bound_hit), [], kind="panic")
            return
        o = XdgOracle(ex, st, env)
        r = st.retval
        got = [r.fields[0].smt(), r.fields[1].smt()]
        is_root = ex.decide(st, B("(= uid (_ bv0 32))"))
        sudo = False
        if is_root and o.isset("SUDO_UID") and o.isset("SUDO_GID"):
            if ex.decide(st, B("(parse_ok val_SUDO_UID)")) and ex.decide(st, B("(parse_ok val_SUDO_GID)")):
                sudo = True
        want = ["(parse_val val_SUDO_UID)", "(parse_val val_SUDO_GID)"] if sudo else ["uid", "gid"]
        ob.total += 1
        f = "(and (= %s %s) (= %s %s))" % (got[0], want[0], got[1], want[1])
        if ex.solver.check(st.pc + ["(not %s)" % f]) == "unsat":
            ob.discharged += 1
        else:
            fail("getrids", st, "C18: getrids returns %s, specification says %s" % (got, want), ["(not %s)" % f],
                 extra_terms=["(= uid (_ bv0 32))", "(parse_ok val_SUDO_UID)", "(parse_ok val_SUDO_GID)"])

    ex.explore(ex.start(fn, [BV(32, False, "uid"), BV(32, False, "gid")]), on_rids)

    # ---- vfs.config_dir(name) on both backends
    solver.declare("cfgname", "Int")
    solver.raw("(assert (>= cfgname 0))")
    for backend, hdr in (("Memfs", r"^fn memfs::vfs::<impl at src/sys/fs/memfs/vfs\.rs[^>]*>::config_dir\("),
                         ("Stdfs", r"^fn stdfs::<impl at src/sys/fs/stdfs/mod\.rs[^>]*>::config_dir\(")):
        fn = ctx.mir.get(hdr)

        def on_cfg(st, backend=backend):
            name = "%s::config_dir" % backend
            if st.panic or st.bound_hit:
                ob.total += 1
                fail(name, st, "%s panics/loops: %s" % (name, st.panic or st.bound_hit), [], kind="panic")
                return
            o = XdgOracle(ex, st, env)
            first = o.single("config_dir")
            kind, got = xdg_result_terms(st.retval)
            if first is None:
                # neither XDG_CONFIG_HOME nor HOME: the statement fixes no result; only totality is demanded
                ob.total += 1
                ob.discharged += 1
                return
            cands = [first] + o.dirs("sys_config_dirs")
            want = None
            for c in cands:
                if ex.decide(st, B("(fs_exists (mash %s cfgname))" % c)):
                    want = c
                    break
            ex_terms = ["(fs_exists (mash %s cfgname))" % c for c in cands]
            ob.total += 1
            if want is None:
                if kind == "none":
                    ob.discharged += 1
                else:
                    fail(name, st, "C18: %s returns a directory although no candidate contains the file" % name, [],
                         extra_terms=ex_terms)
                    ob.failures[-1]["cands"] = cands
                return
            if kind != "ok":
                fail(name, st, "C18: %s returns None although a candidate contains the file" % name, [], extra_terms=ex_terms)
                ob.failures[-1]["cands"] = cands
                return
            f = "(= %s %s)" % (got[0], want)
            if ex.solver.check(st.pc + ["(not %s)" % f]) == "unsat":
                ob.discharged += 1
            else:
                fail(name, st, "C18: %s does not return the first candidate (XDG_CONFIG_HOME, then XDG_CONFIG_DIRS in order) that contains the file" % name,
                     ["(not %s)" % f], extra_terms=ex_terms)
                ob.failures[-1]["cands"] = cands

        args = [Str(sym=I("cfgname"))]
        if backend == "Memfs":
            args = [BoxRef(Adt("Memfs", None, None, []))] + args
        ex.explore(ex.start(fn, args), on_cfg)

    # ---- replay failures natively (each in its own test process)
    done = 0
    for f in ob.failures:
        if f["kind"] == "bound":
            unit["status"], unit["why"] = "inconclusive", f["desc"]
            continue
        if f["cex"] is None:
            unit["status"], unit["why"] = "inconclusive", "no model for " + f["desc"]
            continue
        if done >= 4:
            continue
        done += 1
        src = xdg_replay_src(env, f)
        r = native_test(src, ctx.logdir, "c18_%d" % done)
        reproduced = r["ran"] and r["failed"] > 0
        fail_rec = dict(kind=f["kind"], desc='"%s" env=%s' % (f["desc"], concrete_env(env, f["cex"])), where=f["where"],
                        reproduced=reproduced, replay_outcome=r["out"][-500:])
        if reproduced:
            fail_rec["replay"] = save_replay(prop, "c18_xdg", src, f["desc"], dict(failed=r["failed"]))
        unit["failures"].append(fail_rec)
        unit["status"] = "violation"
    return finish(unit, ex, solver, ob, t0, dict(models_used="env::var as symbolic Option per constant name; strings abstract; pathof/mash/exists/parse uninterpreted"))


def xdg_replay_src(env, f):
    cenv = concrete_env(env, f["cex"])
    fn = f["fn"]
    sets = "".join('    setenv("%s", %s);\n' % (k, "None" if v is None else 'Some("%s")' % v) for k, v in sorted(cenv.items()))
    body = ""
    if fn in XDG_SINGLE or fn == "runtime_dir":
        exp = py_expected(fn, cenv)
        call = "user::%s()" % fn
        if fn == "runtime_dir":
            body = '    assert_eq!(%s, PathBuf::from("%s"), "C18");\n' % (call, exp)
        elif exp is None:
            body = '    assert!(%s.is_err(), "C18: expected an error");\n' % call
        else:
            body = '    assert_eq!(%s.expect("C18: expected Ok"), PathBuf::from("%s"), "C18");\n' % (call, exp)
    elif fn in XDG_LIST:
        exp = py_expected(fn, cenv)
        if exp is None:
            body = '    let _ = user::%s();\n' % fn
        else:
            body = '    let exp: Vec<PathBuf> = vec![%s];\n    assert_eq!(user::%s().expect("C18: expected Ok"), exp, "C18");\n' % (
                ", ".join('PathBuf::from("%s")' % e for e in exp), fn)
    elif fn == "getrids":
        m = f["cex"]
        root = m.get("(= uid (_ bv0 32))")
        uid, gid = (0, 33) if root else (1000, 33)
        cenv2 = dict(cenv)
        for var in ("SUDO_UID", "SUDO_GID"):
            if cenv2.get(var) is not None:
                cenv2[var] = ("4%d1" % len(var)) if m.get("(parse_ok val_%s)" % var) else "x-not-a-number"
        sets = "".join('    setenv("%s", %s);\n' % (k, "None" if v is None else 'Some("%s")' % v) for k, v in sorted(cenv2.items()))
        both = root and all(cenv2.get(v) is not None and cenv2[v].isdigit() for v in ("SUDO_UID", "SUDO_GID"))
        exp = "(%s, %s)" % (cenv2["SUDO_UID"], cenv2["SUDO_GID"]) if both else "(%d, %d)" % (uid, gid)
        body = '    assert_eq!(user::getrids(%d, %d), %s, "C18: getrids");\n' % (uid, gid, exp)
    else:  # X::config_dir
        backend = fn.split("::")[0]
        m = f["cex"]
        first = py_expected("config_dir", cenv)
        cands = [first] + py_expected("sys_config_dirs", cenv)
        flags = [bool(m.get("(fs_exists (mash %s cfgname))" % c)) for c in f.get("cands", [])]
        flags += [False] * (len(cands) - len(flags))
        want = next((c for c, fl in zip(cands, flags) if fl), None)
        if backend == "Memfs":
            mk = "    let vfs = Memfs::new();\n"
            root = ""
        else:
            mk = '    let root = std::env::temp_dir().join(format!("rivia_c18_{}", std::process::id()));\n    let _ = std::fs::remove_dir_all(&root);\n    let vfs = Stdfs::new();\n'
            root = None
        if backend == "Stdfs":
            # sandbox the candidates under a temp root by prefixing every configured directory
            cenv = {k: (None if v is None else ":".join(("" if s == "" else "/tmp/rivia_c18_root" + s) for s in v.split(":"))) for k, v in cenv.items()}
            sets = "".join('    setenv("%s", %s);\n' % (k, "None" if v is None else 'Some("%s")' % v) for k, v in sorted(cenv.items()))
            first = py_expected("config_dir", cenv)
            cands = [first] + py_expected("sys_config_dirs", cenv)
            want = next((c for c, fl in zip(cands, flags) if fl), None)
            mk = '    let _ = std::fs::remove_dir_all("/tmp/rivia_c18_root");\n    let vfs = Stdfs::new();\n'
        mk += "".join('    vfs.mkdir_p("%s").unwrap();\n    vfs.mkfile("%s/app.toml").unwrap();\n' % (c, c) for c, fl in zip(cands, flags) if fl)
        body = mk + '    let got = vfs.config_dir("app.toml");\n'
        body += ('    assert_eq!(got, Some(PathBuf::from("%s")), "C18: config_dir precedence");\n' % want) if want else \
            '    assert_eq!(got, None, "C18: config_dir");\n'
        if backend == "Stdfs":
            body += '    let _ = std::fs::remove_dir_all("/tmp/rivia_c18_root");\n'
    return RUST_ENV_PRELUDE + "#[test]\nfn replay_xdg() {\n    // %s\n%s%s}\n" % (f["desc"].replace("\n", " "), sets, body)


@job("c18_xdg_s3", ["C18", "C12"], "quick",
     functions=["sys::user::{config_dir,cache_dir,data_dir,state_dir,runtime_dir,sys_config_dirs,sys_data_dirs,path_dirs,getrids,home_dir} (real MIR)",
                "sys::fs::path::{home_dir,parse_paths} (real MIR, inlined)", "Memfs::config_dir, Stdfs::config_dir (real MIR)"],
     bounds="every environment over the variables read (each unset / set), list variables with 1..=3 ':'-separated segments each empty or not; uid,gid any u32; exists() any predicate")
def c18_quick(ctx, prop):
    return run_xdg(ctx, prop, 3)


@job("c18_xdg_s6", ["C18", "C12"], "thorough",
     functions=["same as c18_xdg_s3"],
     bounds="list variables with 1..=6 segments")
def c18_thorough(ctx, prop):
    return run_xdg(ctx, prop, 6)


# ------------------------------------------------------------------------------------------------
# C11: chmod::mode (symbolic grammar) and the integer kernels
# ------------------------------------------------------------------------------------------------
CHMOD_INLINE = [
    (rx(r"^_pop$"), lambda mir, c, m: mir.get(r"^fn (?:[\w:]+::)?_pop\(_1: &mut Vec<char>")),
]


def ch_eq(c, k):
    from .mirsym.values import bv_bin
    return bv_bin("Eq", c, BV(32, False, ord(k)))


def ch_in(ex, st, c, alphabet):
    for k in alphabet:
        if ex.decide(st, ch_eq(c, k)):
            return k
    return None


def parse_clause(ex, st, chars, i, one_target):
    """Matches `[dfa]+:[ugoa]+[-+=][rwx]+` (or exactly one target char) at chars[i:], stopping before
    a ',' or at the end.  Returns (ok, next_i, targets, group, op, perm)."""
    n = len(chars)
    targets = []
    while i < n:
        k = ch_in(ex, st, chars[i], "dfa")
        if k is None:
            break
        targets.append(k)
        i += 1
    if not targets or (one_target and len(targets) != 1):
        return (False, i, targets, 0, None, 0)
    if i >= n or not ex.decide(st, ch_eq(chars[i], ":")):
        return (False, i, targets, 0, None, 0)
    i += 1
    group = 0
    gmask = {"u": 0o700, "g": 0o070, "o": 0o007, "a": 0o777}
    ng = 0
    while i < n:
        k = ch_in(ex, st, chars[i], "ugoa")
        if k is None:
            break
        group |= gmask[k]
        ng += 1
        i += 1
    if ng == 0 or i >= n:
        return (False, i, targets, group, None, 0)
    op = ch_in(ex, st, chars[i], "-+=")
    if op is None:
        return (False, i, targets, group, None, 0)
    i += 1
    perm = 0
    pmask = {"r": 0o444, "w": 0o222, "x": 0o111}
    np_ = 0
    while i < n:
        k = ch_in(ex, st, chars[i], "rwx")
        if k is None:
            break
        perm |= pmask[k]
        np_ += 1
        i += 1
    if np_ == 0:
        return (False, i, targets, group, op, perm)
    return (True, i, targets, group, op, perm)


def chmod_oracle(ex, st, chars, entry):
    """Returns ('ok', BV mode) when the whole string is clause(,clause)* with single-char targets,
    else ('other', first_clause_wellformed: bool)."""
    from .mirsym.values import bv_bin, bv_not
    n = len(chars)
    i = 0
    mode = entry.mode
    first_ok = None
    whole = True
    clauses = []
    while True:
        ok, j, targets, group, op, perm = parse_clause(ex, st, chars, i, one_target=False)
        at_end = ok and (j == n or ex.decide(st, ch_eq(chars[j], ",")))
        if first_ok is None:
            first_ok = bool(ok and at_end)
        if not (ok and at_end):
            whole = False
            break
        if len(targets) != 1:
            whole = False
            break
        clauses.append((targets[0], group, op, perm))
        if j == n:
            break
        i = j + 1
        if i >= n:
            whole = False  # trailing comma
            break
    if not whole:
        return ("other", first_ok)
    for t, group, op, perm in clauses:
        gp = BV(32, False, group & perm)
        if op == "-":
            new = bv_bin("BitAnd", mode, bv_not(gp))
        elif op == "+":
            new = bv_bin("BitOr", mode, gp)
        else:
            new = bv_bin("BitOr", bv_bin("BitAnd", mode, bv_not(BV(32, False, group))), gp)
        if t == "a":
            applies = B(True)
        elif t == "d":
            applies = entry.is_dir
        else:
            applies = entry.is_file
        if applies.concrete:
            mode = new if applies.v else mode
        else:
            mode = BV(32, False, "(ite %s %s %s)" % (applies.smt(), new.smt(), mode.smt()))
    return ("ok", mode)


def chmod_model(ex, st, chars, extra):
    terms = [c.v for c in chars if not c.concrete] + ["e_dir", "e_file", "e_link", "e_mode", "octal"]
    r, model = ex.solver.check(st.pc + extra, want_model=terms)
    if r != "sat":
        return None
    m = {k: parse_smt_int(v) for k, v in model.items()}
    s = "".join(chr(m[c.v]) if not c.concrete else chr(c.v) for c in chars)
    return dict(sym=s, is_dir=m["e_dir"], is_file=m["e_file"], is_link=m["e_link"], mode=m["e_mode"], octal=m["octal"])


def py_chmod_expected(sym, kind, mode):
    """concrete reference for the replay: returns new perm bits or None when not of the form clause(,clause)*"""
    import re as _re
    parts = sym.split(",")
    out = mode
    for p in parts:
        m = _re.fullmatch(r"([dfa]):([ugoa]+)([-+=])([rwx]+)", p)
        if not m:
            return None
        g = 0
        for ch in m.group(2):
            g |= {"u": 0o700, "g": 0o070, "o": 0o007, "a": 0o777}[ch]
        pm = 0
        for ch in m.group(4):
            pm |= {"r": 0o444, "w": 0o222, "x": 0o111}[ch]
        if m.group(1) == "a" or m.group(1) == kind:
            if m.group(3) == "-":
                out &= ~(g & pm)
            elif m.group(3) == "+":
                out |= g & pm
            else:
                out = (out & ~g) | (g & pm)
    return out


def chmod_replay_src(cex, desc):
    kind = "link" if cex["is_link"] else ("d" if cex["is_dir"] else "f")
    perm = cex["mode"] & 0o777
    sym = cex["sym"].replace("\\", "\\\\").replace('"', '\\"')
    exp = py_chmod_expected(cex["sym"], kind, perm)
    first = cex["sym"].split(",")[0]
    import re as _re
    first_ok = bool(_re.fullmatch(r"[dfa]+:[ugoa]+[-+=][rwx]+", first))
    mk = {"f": 'vfs.mkfile_m(&p, 0o%o).unwrap();' % perm, "d": 'vfs.mkdir_m(&p, 0o%o).unwrap();' % perm,
          "link": 'vfs.mkfile_m(&t, 0o640).unwrap(); vfs.symlink(&p, &t).unwrap();'}[kind]
    checks = ""
    if kind == "link":
        checks = '    let before = (vfs.mode(&t).unwrap(), vfs.entry(&p).unwrap().mode());\n    let _ = r;\n' \
                 '    assert_eq!((vfs.mode(&t).unwrap(), vfs.entry(&p).unwrap().mode()), before, "C11: chmod without follow altered a symlink or its target");\n'
        pre = ""
    elif exp is not None:
        checks = '    assert!(r.is_ok(), "C11: well-formed expression rejected: {:?}", r);\n' \
                 '    assert_eq!(vfs.mode(&p).unwrap() & 0o7777, 0o%o, "C11: permission bits after chmod sym");\n' % exp
    elif not first_ok:
        checks = '    assert!(r.is_err(), "C11: malformed first clause accepted");\n' \
                 '    assert_eq!(vfs.mode(&p).unwrap() & 0o7777, 0o%o, "C11: failed chmod changed the mode");\n' % perm
    else:
        checks = '    let _ = r;\n'
    checks += '    assert_eq!(vfs.mode(&p).unwrap() & !0o7777, ty, "C11: file type bits changed");\n' if kind != "link" else ""
    return '''use rivia::prelude::*;
#[test]
fn replay_chmod_sym() {
    // %s
    let vfs = Memfs::new();
    let (p, t) = (PathBuf::from("/p"), PathBuf::from("/t"));
    %s
    let ty = vfs.mode(&p).unwrap_or(0) & !0o7777;
    let r = vfs.chmod_b(&p).unwrap().sym("%s").exec();
%s}
''' % (desc.replace("\n", " "), mk, sym, checks)


def run_chmod_mode(ctx, prop, lmax, lmin=0, templates=None, tag="c11_mode"):
    from .mirsym.values import bv_bin
    t0 = time.time()
    solver = ctx.solver(tag)
    models = M.make_chmod_models()
    ex = new_executor(ctx, solver, models, CHMOD_INLINE, max_block_visits=6 * lmax + 40)
    fn = ctx.mir.get(r"^fn (?:[\w:]+::)?chmod::mode\(_1: &sys::fs::entry::VfsEntry, _2: u32, _3: &str\)")
    for nm, sort in (("e_dir", "Bool"), ("e_file", "Bool"), ("e_link", "Bool"), ("e_mode", "(_ BitVec 32)"),
                     ("octal", "(_ BitVec 32)")):
        solver.declare(nm, sort)
    entry = M.EntryM(B("e_dir"), B("e_file"), B("e_link"), BV(32, False, "e_mode"))
    base_pc = ["(not (and e_dir e_file))", "(bvule e_mode #x0000ffff)"]
    ob = Obl()
    unit = dict(status="pass", failures=[])
    shapes = [(L, None) for L in range(lmin, lmax + 1)] if templates is None else [(len(t), t) for t in templates]
    for si, (L, tmpl) in enumerate(shapes):
        chars = []
        cons = []
        for i in range(L):
            nm = "s%d_%d_c%d" % (L, si, i)
            solver.declare(nm, "(_ BitVec 32)")
            chars.append(BV(32, False, nm))
            if tmpl is None or tmpl[i] is None:
                cons.append("(bvule %s #x0010ffff)" % nm)  # any char (surrogates excluded below)
                cons.append("(not (and (bvuge %s #x0000d800) (bvule %s #x0000dfff)))" % (nm, nm))
            elif len(tmpl[i]) == 1:
                chars[-1] = BV(32, False, ord(tmpl[i]))
            else:
                cons.append("(or %s)" % " ".join("(= %s (_ bv%d 32))" % (nm, ord(k)) for k in tmpl[i]))

        def on_path(st, chars=chars, L=L):
            cf = lambda extra: chmod_model(ex, st, chars, extra)
            if st.panic or st.bound_hit:
                ob.total += 1
                ob.failures.append(dict(kind="panic" if st.panic else "bound", where="sys::fs::chmod::mode",
                                        desc="chmod::mode panics/loops: %s" % (st.panic or st.bound_hit), cex=cf([])))
                return
            r = st.retval
            octal_zero = ex.decide(st, B("(= octal #x00000000)"))
            if not octal_zero:
                ob.prove(ex, st, "C11: octal mode takes priority", B(r.variant == 0) if r.variant != 0 else
                         bv_bin("Eq", r.fields[0], BV(32, False, "octal")), cf)
                return
            if L == 0:
                return
            is_link = ex.decide(st, entry.is_symlink)
            if is_link:
                if r.variant == 0:
                    ob.prove(ex, st, "C11: a symlink itself is never altered (L=%d)" % L,
                             bv_bin("Eq", r.fields[0], entry.mode), cf)
                return
            kind, val = chmod_oracle(ex, st, chars, entry)
            if kind == "ok":
                if r.variant != 0:
                    ob.total += 1
                    ob.failures.append(dict(kind="functional", where="sys::fs::chmod::mode", cex=cf([]),
                                            desc="C11: well-formed symbolic expression rejected (L=%d)" % L))
                else:
                    ob.prove(ex, st, "C11: symbolic mode == documented grammar applied clause by clause to the targeted kind (L=%d)" % L,
                             bv_bin("Eq", r.fields[0], val), cf)
                    if len(ob.samples) < 4 and (L == lmax or tmpl is not None):
                        m = cf([])
                        if m:
                            ob.samples.append(dict(obligation="mode(entry,0,sym) == oracle", sym=m["sym"], entry_mode=oct(m["mode"])))
            else:
                if val is False:
                    ob.prove(ex, st, "C11: malformed first clause must be reported as an error (L=%d)" % L,
                             B(r.variant == 1), cf)
            if r.variant == 0:
                keep = bv_bin("Eq", bv_bin("BitAnd", r.fields[0], BV(32, False, 0xFFFFF000)),
                              bv_bin("BitAnd", entry.mode, BV(32, False, 0xFFFFF000)))
                ob.prove(ex, st, "C11: file-type bits are kept (L=%d)" % L, keep, cf)

        st0 = ex.start(fn, [BoxRef(entry), BV(32, False, "octal"), BoxRef(M.CharStr(chars))])
        st0.pc = base_pc + cons
        ex.explore(st0, on_path)
    seen = set()
    for f in ob.failures:
        if f["kind"] == "bound":
            unit["status"], unit["why"] = "inconclusive", f["desc"]
            continue
        if f["cex"] is None:
            unit["status"], unit["why"] = "inconclusive", "no model for " + f["desc"]
            continue
        key = re.sub(r"\(L=\d+\)", "", f["desc"])
        if key in seen:
            continue
        seen.add(key)
        src = chmod_replay_src(f["cex"], f["desc"])
        r = native_test(src, ctx.logdir, "c11_%d" % len(seen))
        reproduced = r["ran"] and r["failed"] > 0
        rec = dict(kind=f["kind"], desc='"%s" sym=%r entry=%s' % (f["desc"], f["cex"]["sym"], {k: v for k, v in f["cex"].items() if k != "sym"}),
                   where=f["where"], reproduced=reproduced, replay_outcome=r["out"][-500:], role=key)
        if reproduced:
            rec["replay"] = save_replay(prop, "c11_mode", src, f["desc"], dict(failed=r["failed"]))
        unit["failures"].append(rec)
        unit["status"] = "violation"
    return finish(unit, ex, solver, ob, t0, dict(models_used="&str as a symbolic char array of concrete length; Vec<char>; VfsEntry accessors as symbolic flags/mode"))


@job("c11_mode_l4", ["C11", "C12"], "quick",
     functions=["sys::fs::chmod::mode (real MIR)", "sys::fs::chmod::_pop (real MIR, inlined)"],
     bounds="every string of 0..=4 chars (any Unicode scalar), every entry (is_dir,is_file,is_symlink,mode<=0xffff), octal any u32")
def c11_quick(ctx, prop):
    u = run_chmod_mode(ctx, prop, 4, tag="c11_mode_l4")
    u["planted_mutants"] = planted_mutants(ctx, lambda: run_chmod_mode(ctx, prop, 5, templates=[["a", ":", G, O, P]], tag="c11_plant"), sites=(0, 2, 4, 6))
    return u


@job("c11_mode_l5", ["C11", "C12"], "quick",
     functions=["sys::fs::chmod::mode (real MIR)", "sys::fs::chmod::_pop (real MIR, inlined)"],
     bounds="every string of exactly 5 chars (any Unicode scalar; the shortest complete clause), every entry, octal any u32")
def c11_quick5(ctx, prop):
    return run_chmod_mode(ctx, prop, 5, lmin=5, tag="c11_mode_l5")


@job("c11_mode_l6", ["C11", "C12"], "thorough",
     functions=["sys::fs::chmod::mode (real MIR)", "sys::fs::chmod::_pop (real MIR, inlined)"],
     bounds="every string of exactly 6 chars (any Unicode scalar), every entry, octal any u32")
def c11_l6(ctx, prop):
    return run_chmod_mode(ctx, prop, 6, lmin=6, tag="c11_mode_l6")


@job("c11_mode_l7", ["C11", "C12"], "thorough",
     functions=["sys::fs::chmod::mode (real MIR)", "sys::fs::chmod::_pop (real MIR, inlined)"],
     bounds="every string of exactly 7 chars (any Unicode scalar), every entry, octal any u32")
def c11_l7(ctx, prop):
    return run_chmod_mode(ctx, prop, 7, lmin=7, tag="c11_mode_l7")


T, G, O, P = "dfa", "ugoa", "-+=", "rwx"


def _mk_double_reduced(t):
    @job("c11_mode_double_reduced_" + t, ["C11", "C12"], "quick",
         functions=["sys::fs::chmod::mode (real MIR)"],
         bounds="every double clause `%s:G±P,T:a±x` with T in [dfa], G in [ugoa], ± in [-+=], P in [rwx], every entry kind and mode" % t)
    def f(ctx, prop):
        return run_chmod_mode(ctx, prop, 11, templates=[[t, ":", G, O, P, ",", T, ":", "a", O, "x"]], tag="c11_double_reduced_" + t)
    return f


for _t in T:
    _mk_double_reduced(_t)


def _mk_double_full(t, g):
    @job("c11_mode_double_full_%s%s" % (t, g), ["C11", "C12"], "thorough",
         functions=["sys::fs::chmod::mode (real MIR)"],
         bounds="every double clause `%s:%s±P,T:G±P` over the grammar alphabet, every entry kind and mode" % (t, g))
    def f(ctx, prop):
        return run_chmod_mode(ctx, prop, 11, templates=[[t, ":", g, O, P, ",", T, ":", G, O, P]], tag="c11_double_full_%s%s" % (t, g))
    return f


for _t in T:
    for _g in G:
        _mk_double_full(_t, _g)


@job("c11_mode_multi", ["C11", "C12"], "thorough",
     functions=["sys::fs::chmod::mode (real MIR)"],
     bounds="every single clause `T:GG±PP` (two group and two permission letters)")
def c11_multi(ctx, prop):
    return run_chmod_mode(ctx, prop, 7, templates=[[T, ":", G, G, O, P, P]], tag="c11_multi")




# ------------------------------------------------------------------------------------------------
# C19 (text half): StringExt::{size, to_bool, trim_suffix} on symbolic text
# ------------------------------------------------------------------------------------------------
def _find_stringext(mir, callee, m):
    recv, name = m.group(1), m.group(2)
    col = "23" if recv == "str" else "26"
    return mir.get(r"^fn core::string::<impl at src/core/string\.rs:\d+:1: \d+:%s>::%s\(" % (col, re.escape(name)))


TEXT_INLINE = [
    (rx(r"^<(str|String) as (?:core::string::)?StringExt>::(\w+)(?:::<.*>)?$"), _find_stringext),
]


def sym_text(solver, prefix, n, ascii_only=False):
    chars, cons = [], []
    for i in range(n):
        nm = "%s_%d" % (prefix, i)
        solver.declare(nm, "(_ BitVec 32)")
        chars.append(BV(32, False, nm))
        if ascii_only:
            cons.append("(bvult %s #x00000080)" % nm)
        else:
            cons.append("(bvule %s #x0010ffff)" % nm)
            cons.append("(not (and (bvuge %s #x0000d800) (bvule %s #x0000dfff)))" % (nm, nm))
    return chars, cons


def text_model(ex, st, groups, extra):
    """groups: {name: [BV chars]} -> {name: python str} from a model of pc+extra"""
    terms = [c.v for g in groups.values() for c in g if not c.concrete]
    r, model = ex.solver.check(st.pc + extra, want_model=terms or ["true"])
    if r != "sat":
        return None
    out = {}
    for k, g in groups.items():
        out[k] = "".join(chr(parse_smt_int(model[c.v])) if not c.concrete else chr(c.v) for c in g)
    return out


def rs_str(s):
    return '"' + "".join(ch if (32 <= ord(ch) < 127 and ch not in '"\\') else "\\u{%x}" % ord(ch) for ch in s) + '"'


def rs_debug(s):
    """Rust's `{:?}` rendering of a str"""
    out = []
    for ch in s:
        o = ord(ch)
        if ch == '"':
            out.append('\\"')
        elif ch == "\\":
            out.append("\\\\")
        elif ch == "\n":
            out.append("\\n")
        elif ch == "\t":
            out.append("\\t")
        elif ch == "\r":
            out.append("\\r")
        elif ch == "\0":
            out.append("\\0")
        elif o < 32 or o == 127:
            out.append("\\u{%x}" % o)
        else:
            out.append(ch)
    return '"' + "".join(out) + '"'


def run_text(ctx, prop, nmax, kmax, bmax):
    from .mirsym.values import bv_bin
    t0 = time.time()
    solver = ctx.solver("c19_text")
    ex = new_executor(ctx, solver, M.make_text_models(), TEXT_INLINE, max_block_visits=16)
    ob = Obl()
    unit = dict(status="pass", failures=[])
    replays = []

    def fail(desc, where, groups, st, extra, kind="functional"):
        ob.failures.append(dict(kind=kind, desc=desc, where=where, cex=text_model(ex, st, groups, extra)))

    impls = [("str", r"23"), ("String", r"26")]
    for recv, col in impls:
        hdr = lambda name, sig: r"^fn core::string::<impl at src/core/string\.rs:\d+:1: \d+:%s>::%s\(%s" % (col, name, sig)
        self_ty = "&str" if recv == "str" else "&String"
        # ---- size
        fn = ctx.mir.get(hdr("size", "_1: " + re.escape(self_ty)))
        for n in range(0, nmax + 1):
            chars, cons = sym_text(solver, "sz%s%d" % (recv, n), n)

            def on_size(st, n=n, chars=chars):
                g = {"s": chars}
                if st.panic or st.bound_hit:
                    ob.total += 1
                    fail("%s::size panics: %s" % (recv, st.panic or st.bound_hit), "StringExt::size", g, st, [], "panic")
                    return
                ob.prove(ex, st, "C19: size() is the number of characters (%s, n=%d)" % (recv, n),
                         bv_bin("Eq", st.retval, BV(64, False, n)), lambda extra: text_model(ex, st, g, extra)) or \
                    ob.failures[-1].update(where="StringExt::size", fn="size", recv=recv)

            st0 = ex.start(fn, [BoxRef(M.SStr(chars))])
            st0.pc = cons
            ex.explore(st0, on_size)
        # ---- trim_suffix
        fn = ctx.mir.get(hdr("trim_suffix", "_1: " + re.escape(self_ty) + ", _2: T"))
        for n in range(0, nmax + 1):
            for k in range(0, kmax + 1):
                sc, c1 = sym_text(solver, "ts%s%d_%d_s" % (recv, n, k), n)
                tc, c2 = sym_text(solver, "ts%s%d_%d_t" % (recv, n, k), k)

                def on_ts(st, n=n, k=k, sc=sc, tc=tc):
                    g = {"s": sc, "t": tc}
                    cf = lambda extra: text_model(ex, st, g, extra)
                    if st.panic or st.bound_hit:
                        ob.total += 1
                        fail("C19: %s::trim_suffix panics: %s" % (recv, st.panic or st.bound_hit), "StringExt::trim_suffix", g, st, [], "panic")
                        ob.failures[-1].update(fn="trim_suffix", recv=recv)
                        return
                    res = st.retval
                    if not isinstance(res, M.SStr):
                        raise Unsupported("trim_suffix returned %r" % (res,))
                    is_suffix = B(False) if k > n else (M.chars_eq(sc[n - k:], tc) if k else B(True))
                    if ex.decide(st, is_suffix):
                        want = sc[:n - k]
                    else:
                        want = sc
                    okf = B(len(res.chars) == len(want)) if len(res.chars) != len(want) else M.chars_eq(res.chars, want)
                    ob.prove(ex, st, "C19: trim_suffix removes exactly one trailing occurrence or nothing (%s, n=%d, k=%d)" % (recv, n, k),
                             okf if not (okf.concrete and okf.v is True and not want) else B(True), cf) or \
                        ob.failures[-1].update(where="StringExt::trim_suffix", fn="trim_suffix", recv=recv)
                    if len(ob.samples) < 3 and n == nmax and k == 1:
                        m = cf([])
                        if m:
                            ob.samples.append(dict(obligation="trim_suffix(s,t) == oracle", s=m["s"], t=m["t"]))

                st0 = ex.start(fn, [BoxRef(M.SStr(sc)), M.SStr(tc)])
                st0.pc = c1 + c2
                ex.explore(st0, on_ts)
        # ---- to_bool (ASCII)
        fn = ctx.mir.get(hdr("to_bool", "_1: " + re.escape(self_ty)))
        for n in range(0, bmax + 1):
            chars, cons = sym_text(solver, "tb%s%d" % (recv, n), n, ascii_only=True)

            def on_tb(st, n=n, chars=chars):
                g = {"s": chars}
                cf = lambda extra: text_model(ex, st, g, extra)
                if st.panic or st.bound_hit:
                    ob.total += 1
                    fail("C19: %s::to_bool panics: %s" % (recv, st.panic or st.bound_hit), "StringExt::to_bool", g, st, [], "panic")
                    ob.failures[-1].update(fn="to_bool", recv=recv)
                    return
                low = [M.ascii_lower(c) for c in chars]
                falsy = B(n == 0)
                if n == 1:
                    falsy = bv_bin("Eq", chars[0], BV(32, False, ord("0")))
                if n == 5:
                    falsy = M.chars_eq(low, [BV(32, False, ord(ch)) for ch in "false"])
                from .mirsym.values import b_eq
                ob.prove(ex, st, "C19: to_bool is false exactly for \"\", \"0\" and any casing of \"false\" (%s, n=%d)" % (recv, n),
                         b_eq(st.retval, b_not(falsy)), cf) or ob.failures[-1].update(where="StringExt::to_bool", fn="to_bool", recv=recv)

            st0 = ex.start(fn, [BoxRef(M.SStr(chars))])
            st0.pc = cons
            ex.explore(st0, on_tb)
    # ---- replay
    seen = set()
    for f in ob.failures:
        if f["kind"] == "bound" or f["cex"] is None:
            unit["status"], unit["why"] = "inconclusive", f["desc"]
            continue
        key = (f.get("fn"), f.get("recv"), f["kind"])
        if key in seen:
            continue
        seen.add(key)
        s = f["cex"].get("s", "")
        recv_expr = rs_str(s) if f.get("recv") == "str" else rs_str(s) + ".to_string()"
        if f.get("fn") == "size":
            body = '    assert_eq!(%s.size(), %d, "C19: size");\n' % (recv_expr, len(s))
        elif f.get("fn") == "trim_suffix":
            t = f["cex"].get("t", "")
            exp = s[:len(s) - len(t)] if s.endswith(t) else s
            body = '    assert_eq!(%s.trim_suffix(%s), %s, "C19: trim_suffix");\n' % (recv_expr, rs_str(t), rs_str(exp))
        else:
            exp = not (s == "" or s == "0" or s.lower() == "false")
            body = '    assert_eq!(%s.to_bool(), %s, "C19: to_bool");\n' % (recv_expr, "true" if exp else "false")
        src = "use rivia::prelude::*;\n#[test]\nfn replay_text() {\n    // %s\n%s}\n" % (f["desc"], body)
        r = native_test(src, ctx.logdir, "c19_text_%d" % len(seen))
        reproduced = r["ran"] and r["failed"] > 0
        rec = dict(kind=f["kind"], desc='"%s" s=%r t=%r' % (f["desc"], s, f["cex"].get("t")), where=f.get("where", ""),
                   reproduced=reproduced, replay_outcome=r["out"][-400:])
        if reproduced:
            rec["replay"] = save_replay(prop, "c19_text", src, f["desc"], dict(failed=r["failed"]))
        unit["failures"].append(rec)
        unit["status"] = "violation"
    return finish(unit, ex, solver, ob, t0, dict(models_used="&str/String as symbolic char sequences with UTF-8 byte-length arithmetic (lib/mirsym/models.py make_text_models)"))


@job("c19_text", ["C19", "C12"], "quick",
     functions=["<str as StringExt>::{size,to_bool,trim_suffix}", "<String as StringExt>::{size,to_bool,trim_suffix} (real MIR)"],
     bounds="size: every string of 0..=4 Unicode scalars; trim_suffix: every (s, suffix) with |s|<=4, |suffix|<=3 chars (multi-byte included); to_bool: every ASCII string of 0..=6 chars")
def c19_text(ctx, prop):
    return run_text(ctx, prop, 4, 3, 6)


# ------------------------------------------------------------------------------------------------
# C15 (text-level laws) + C12: sys::{trim_prefix, trim_suffix, has, has_prefix, has_suffix}
# Paths are text here (valid UTF-8): Path == &str == symbolic char sequence.
# ------------------------------------------------------------------------------------------------
def make_pathtext_models():
    def m_as_ref(ex, st, args, callee, ty):
        return M._last_ref(ex, st, args[0]) if isinstance(args[0], (Ref, BoxRef)) else BoxRef(args[0])

    def m_to_str(ex, st, args, callee, ty):
        return M.opt_some(ex, M.sstr_of(ex, st, args[0]))

    def m_opaque(ex, st, args, callee, ty):
        return Adt("PathError", None, "FailedToString", [])

    def m_ok_or(ex, st, args, callee, ty):
        o = args[0]
        if o.variant == 1:
            return Adt("Result", 0, "Ok", [o.fields[0]])
        return Adt("Result", 1, "Err", [args[1]])

    def m_copy(ex, st, args, callee, ty):
        return M.sstr_of(ex, st, args[0])

    return [
        (rx(r"^<[TU] as AsRef<Path>>::as_ref$"), m_as_ref),
        (rx(r"^Path::to_str$"), m_to_str),
        (rx(r"^(?:errors::path::)?PathError::failed_to_string::<&Path>$"), m_opaque),
        (rx(r"^Option::<&str>::ok_or::<(?:errors::path::)?PathError>$"), m_ok_or),
        (rx(r"^<Result<.*> as Try>::branch$"), M.m_try_branch_generic),
        (rx(r"^<Result<.*> as FromResidual<Result<Infallible, .*>>>::from_residual$"), M.m_from_residual_generic),
        (rx(r"^Path::to_path_buf$"), m_copy),
        (rx(r"^<PathBuf as From<&str>>::from$"), m_copy),
        (rx(r"^<PathBuf as From<String>>::from$"), m_copy),
    ] + M.make_text_models()


PATHTEXT_INLINE = TEXT_INLINE + [
    (rx(r"^<Path as (?:core::string::)?ToStringExt>::to_string$"),
     lambda mir, c, m: mir.get(r"^fn core::string::<impl at src/core/string\.rs:\d+:1: \d+:26>::to_string\(_1: &Path\)")),
]


def run_pathtext(ctx, prop, nmax, kmax):
    t0 = time.time()
    solver = ctx.solver("c15_pathtext")
    ex = new_executor(ctx, solver, make_pathtext_models(), PATHTEXT_INLINE, max_block_visits=16)
    ob = Obl()
    unit = dict(status="pass", failures=[])
    fns = {
        "trim_prefix": r"^fn (sys::fs::path::)?trim_prefix\(_1: T, _2: U\) -> PathBuf",
        "trim_suffix": r"^fn (sys::fs::path::)?trim_suffix\(_1: T, _2: U\) -> PathBuf",
        "has": r"^fn (sys::fs::path::)?has\(_1: T, _2: U\) -> bool",
        "has_prefix": r"^fn (sys::fs::path::)?has_prefix\(_1: T, _2: U\) -> bool",
        "has_suffix": r"^fn (sys::fs::path::)?has_suffix\(_1: T, _2: U\) -> bool",
    }
    for name, hdr in fns.items():
        fn = ctx.mir.get(hdr)
        for n in range(0, nmax + 1):
            for k in range(0, kmax + 1):
                sc, c1 = sym_text(solver, "pt_%s_%d_%d_s" % (name, n, k), n)
                tc, c2 = sym_text(solver, "pt_%s_%d_%d_t" % (name, n, k), k)

                def on_path(st, name=name, n=n, k=k, sc=sc, tc=tc):
                    g = {"s": sc, "t": tc}
                    cf = lambda extra: text_model(ex, st, g, extra)
                    if st.panic or st.bound_hit:
                        ob.total += 1
                        ob.failures.append(dict(kind="panic" if st.panic else "bound", where="sys::" + name, fn=name, cex=cf([]),
                                                desc="C12: sys::%s panics: %s" % (name, st.panic or st.bound_hit)))
                        return
                    res = st.retval
                    is_pre = B(False) if k > n else (M.chars_eq(sc[:k], tc) if k else B(True))
                    is_suf = B(False) if k > n else (M.chars_eq(sc[n - k:], tc) if k else B(True))
                    if name in ("trim_prefix", "trim_suffix"):
                        hit = ex.decide(st, is_pre if name == "trim_prefix" else is_suf)
                        want = (sc[k:] if name == "trim_prefix" else sc[:n - k]) if hit else sc
                        if not isinstance(res, M.SStr):
                            raise Unsupported("%s returned %r" % (name, res))
                        okf = B(False) if len(res.chars) != len(want) else (M.chars_eq(res.chars, want) if want else B(True))
                        ob.prove(ex, st, "C15: %s(p, s) removes exactly the given %s or returns p unchanged (n=%d, k=%d)" % (
                            name, "prefix" if name == "trim_prefix" else "suffix", n, k), okf, cf) or \
                            ob.failures[-1].update(where="sys::" + name, fn=name)
                    else:
                        from .mirsym.values import b_eq
                        if name == "has":
                            want = B(False) if k > n else b_or(*[(M.chars_eq(sc[i:i + k], tc) if k else B(True)) for i in range(n - k + 1)])
                        else:
                            want = is_pre if name == "has_prefix" else is_suf
                        ob.prove(ex, st, "C15: %s agrees with string containment (n=%d, k=%d)" % (name, n, k), b_eq(res, want), cf) or \
                            ob.failures[-1].update(where="sys::" + name, fn=name)
                    if len(ob.samples) < 3 and n == nmax and k == 2 and name == "trim_prefix":
                        m = cf([])
                        if m:
                            ob.samples.append(dict(obligation="trim_prefix(s, t) == oracle", s=m["s"], t=m["t"]))

                st0 = ex.start(fn, [BoxRef(M.SStr(sc)), BoxRef(M.SStr(tc))])
                st0.pc = c1 + c2
                ex.explore(st0, on_path)
    seen = set()
    for f in ob.failures:
        if f["kind"] == "bound" or f["cex"] is None:
            unit["status"], unit["why"] = "inconclusive", f["desc"]
            continue
        key = (f.get("fn"), f["kind"])
        if key in seen:
            continue
        seen.add(key)
        s, t = f["cex"].get("s", ""), f["cex"].get("t", "")
        name = f["fn"]
        if name == "trim_prefix":
            exp = s[len(t):] if s.startswith(t) else s
            body = '    assert_eq!(sys::trim_prefix(%s, %s), PathBuf::from(%s), "C15: trim_prefix");\n' % (rs_str(s), rs_str(t), rs_str(exp))
        elif name == "trim_suffix":
            exp = s[:len(s) - len(t)] if s.endswith(t) else s
            body = '    assert_eq!(sys::trim_suffix(%s, %s), PathBuf::from(%s), "C15: trim_suffix");\n' % (rs_str(s), rs_str(t), rs_str(exp))
        else:
            exp = {"has": t in s, "has_prefix": s.startswith(t), "has_suffix": s.endswith(t)}[name]
            body = '    assert_eq!(sys::%s(%s, %s), %s, "C15: %s");\n' % (name, rs_str(s), rs_str(t), "true" if exp else "false", name)
        src = "use rivia::prelude::*;\n#[test]\nfn replay_pathtext() {\n    // %s\n%s}\n" % (f["desc"], body)
        r = native_test(src, ctx.logdir, "c15_text_%d" % len(seen))
        reproduced = r["ran"] and r["failed"] > 0
        rec = dict(kind=f["kind"], desc='"%s" p=%r s=%r' % (f["desc"], s, t), where=f.get("where", ""),
                   reproduced=reproduced, replay_outcome=r["out"][-400:])
        if reproduced:
            rec["replay"] = save_replay(prop, "c15_pathtext", src, f["desc"], dict(failed=r["failed"]))
        unit["failures"].append(rec)
        unit["status"] = "violation"
    return finish(unit, ex, solver, ob, t0, dict(models_used="Path/str/String as symbolic char sequences with UTF-8 byte-length arithmetic"))


@job("c15_pathtext", ["C15", "C12"], "quick",
     functions=["sys::{trim_prefix,trim_suffix,has,has_prefix,has_suffix} (real MIR)", "<Path as ToStringExt>::to_string (real MIR, inlined)",
                "<String as StringExt>::size (real MIR, inlined)"],
     bounds="every (path, s) of valid UTF-8 text with |path| <= 4 and |s| <= 3 Unicode scalars (1-4 byte encodings)")
def c15_pathtext(ctx, prop):
    return run_pathtext(ctx, prop, 4, 3)


# ------------------------------------------------------------------------------------------------
# Text-level path jobs: Path/PathBuf are symbolic char sequences, std::path is lib/mirsym/textpath.py
# ------------------------------------------------------------------------------------------------
from .mirsym import textpath as TP  # noqa: E402


def _find_free_fn(mir, callee, m):
    """generic rule: a call of a free function of sys::fs::path (or a PathExt method, which delegates to
    it) is inlined from its MIR body when the name identifies exactly one function in the dump"""
    name = m.group(1)
    hits = mir.find(r"^fn (?:sys::fs::path::)?%s\(" % re.escape(name))
    if len(hits) != 1:
        hits = mir.find(r"^fn sys::fs::path::<impl at src/sys/fs/path\.rs[^>]*>::%s\(" % re.escape(name))
    if len(hits) != 1:
        raise Unsupported("callee `%s` does not identify one MIR body (%d candidates)" % (callee, len(hits)))
    return mir.function_at(hits[0])


GENERIC_PATH_INLINE = [
    (rx(r"^(?:sys::fs::path::)?(clean|concat|dir|base|ext|expand|first|name|has|has_prefix|has_suffix|last|mash|relative|trim_ext|trim_first|trim_last|trim_prefix|trim_protocol|trim_suffix|is_empty)(?:::<.*>)?$"),
     _find_free_fn),
    (rx(r"^<(?:Path|PathBuf) as (?:sys::fs::path::)?PathExt>::(\w+)(?:::<.*>)?$"), _find_free_fn),
]


def text_executor(ctx, solver, extra_inline=(), **kw):
    models = TP.make_textpath_models() + make_pathtext_models()
    ex = new_executor(ctx, solver, models, list(extra_inline) + RIVIA_INLINE + PATHTEXT_INLINE + GENERIC_PATH_INLINE, **kw)
    ex.enum_hook = TP.text_enum_hook
    return ex


def text_eq(a, b):
    if len(a) != len(b):
        return B(False)
    return M.chars_eq(a, b) if a else B(True)


def py_go_clean(s):
    class D:
        def decide(self, st, c):
            assert c.concrete
            return c.v
    return "".join(chr(c.v) for c in TP.go_clean_text(D(), None, [BV(32, False, ord(x)) for x in s]))


def run_clean_text(ctx, prop, nmax, nmin=0, alphabet=None, tag="c14_clean_text"):
    t0 = time.time()
    solver = ctx.solver(tag)
    ex = text_executor(ctx, solver, max_block_visits=4 * nmax + 24)
    fn = ctx.mir.get(r"^fn sys::fs::path::clean\(_1: T\)")
    ob = Obl()
    unit = dict(status="pass", failures=[])
    for n in range(nmin, nmax + 1):
        chars, cons = sym_text(solver, "ct%d" % n, n)
        if alphabet:
            cons = ["(or %s)" % " ".join("(= %s (_ bv%d 32))" % (c.v, ord(k)) for k in alphabet) for c in chars]
        g = {"s": chars}

        def on_path(st, n=n, chars=chars, g=g):
            cf = lambda extra: text_model(ex, st, g, extra)
            if st.panic or st.bound_hit:
                ob.total += 1
                ob.failures.append(dict(kind="panic" if st.panic else "bound", where="sys::fs::path::clean", cex=cf([]),
                                        desc="clean panics/loops: %s" % (st.panic or st.bound_hit)))
                return
            if st.meta.get("stage", 1) == 1:
                res = st.retval
                if not isinstance(res, TP.PathBufT):
                    raise Unsupported("clean returned %r" % (res,))
                want = TP.go_clean_text(ex, st, chars)
                ob.prove(ex, st, "C14: clean(s) is exactly Go's path.Clean(s) as a string (n=%d)" % n, text_eq(res.chars, want), cf)
                ob.prove(ex, st, "C14: result is never empty", B(len(res.chars) > 0), cf)
                if chars and res.chars:
                    from .mirsym.values import b_eq
                    ob.prove(ex, st, "C14: absoluteness preserved", b_eq(TP.is_ch(chars[0], TP.SLASH), TP.is_ch(res.chars[0], TP.SLASH)), cf)
                if len(ob.samples) < 3 and n == nmax:
                    m = cf([])
                    if m:
                        ob.samples.append(dict(obligation="clean(s) == GoClean(s)", s=m["s"], expected=py_go_clean(m["s"])))
                st2 = ex.start(fn, [BoxRef(M.SStr(res.chars))])
                st2.pc = list(st.pc)
                st2.meta = dict(stage=2, first=list(res.chars))
                return [st2]
            ob.prove(ex, st, "C14: clean is idempotent (n=%d)" % n, text_eq(st.retval.chars, st.meta["first"]), cf)

        st0 = ex.start(fn, [BoxRef(M.SStr(chars))])
        st0.pc = cons
        ex.explore(st0, on_path)
    seen = set()
    for f in ob.failures:
        if f["kind"] == "bound" or f["cex"] is None:
            unit["status"], unit["why"] = "inconclusive", f["desc"]
            continue
        s = f["cex"]["s"]
        if s in seen or len(seen) >= 3:
            continue
        seen.add(s)
        exp = py_go_clean(s)
        src = '''use rivia::prelude::*;
#[test]
fn replay_clean_text() {
    // %s
    let got = sys::clean(%s);
    assert_eq!(got.to_str().unwrap(), %s, "C14: clean differs from Go's path.Clean");
    assert_eq!(sys::clean(&got).to_str().unwrap(), got.to_str().unwrap(), "C14: clean is not idempotent");
}
''' % (f["desc"], rs_str(s), rs_str(exp))
        r = native_test(src, ctx.logdir, "c14t_%d" % len(seen))
        reproduced = r["ran"] and r["failed"] > 0
        rec = dict(kind=f["kind"], desc='"%s" s=%r expected=%r' % (f["desc"], s, exp), where="sys::fs::path::clean",
                   reproduced=reproduced, replay_outcome=r["out"][-400:])
        if reproduced:
            rec["replay"] = save_replay(prop, tag, src, f["desc"], dict(failed=r["failed"]))
        unit["failures"].append(rec)
        unit["status"] = "violation"
    return finish(unit, ex, solver, ob, t0, dict(models_used="text-level std::path model (lib/mirsym/textpath.py): tokeniser, PathBuf push/pop, component equality over symbolic chars"))


@job("c14_clean_text_n5", ["C14", "C12"], "quick",
     functions=["sys::fs::path::clean (real MIR) on text", "OptionExt::has, sys::is_empty (real MIR, inlined)"],
     bounds="every string of 0..=5 Unicode scalars (any chars, incl. '/', '.', multi-byte); string-level equality with Go's path.Clean")
def c14_text_quick(ctx, prop):
    u = run_clean_text(ctx, prop, 5)
    u["planted_mutants"] = planted_mutants(ctx, lambda: run_clean_text(ctx, prop, 3, tag="c14_plant"))
    return u


def toks_eq(a, b):
    if len(a) != len(b):
        return B(False)
    return b_and(*[TP.tcomp_eq(x, y) for x, y in zip(a, b)]) if a else B(True)


def comps_of(ex, st, chars):
    return [t[0] for t in TP.tokenize(ex, st, chars)]


def result_text(v):
    """Ok(String|PathBuf) / PathBuf / String -> ('ok'|'err', chars)"""
    if isinstance(v, Adt) and v.ty == "Result":
        if v.variant == 1:
            return "err", None
        v = v.fields[0]
    if isinstance(v, (TP.PathBufT, M.SStr)):
        return "ok", v.chars
    raise Unsupported("unexpected result %r" % (v,))


# name -> (header regex, number of text args, oracle(ex, st, args) -> list of (description, B formula))
def _o_dir(ex, st, a, res):
    kind, txt = res
    c = comps_of(ex, st, a[0])
    has_parent = bool(c) and c[-1].kind != ROOT
    if not has_parent:
        return [("C15: dir(p) fails exactly when p has no parent", B(kind == "err"))]
    if kind != "ok":
        return [("C15: dir(p) fails although p has a parent", B(False))]
    return [("C15: dir(p) is p without its last component", toks_eq(comps_of(ex, st, txt), c[:-1]))]


def _o_lastlike(which):
    def f(ex, st, a, res):
        kind, txt = res
        c = comps_of(ex, st, a[0])
        if not c:
            return [("C15: %s(p) fails exactly for a path without components" % which, B(kind == "err"))]
        if kind != "ok":
            return [("C15: %s(p) fails although p has components" % which, B(False))]
        want = c[0] if which == "first" else c[-1]
        return [("C15: %s(p) is the text of the %s component" % (which, "first" if which == "first" else "last"),
                 text_eq(txt, want.text))]
    return f


def _o_trim(which):
    def f(ex, st, a, res):
        kind, txt = res
        c = comps_of(ex, st, a[0])
        want = c[1:] if which == "trim_first" else c[:-1]
        return [("C15: %s(p) removes exactly one component" % which, toks_eq(comps_of(ex, st, txt), want))]
    return f


def _o_mash(ex, st, a, res):
    kind, txt = res
    d, p = a
    i = 0
    while i < len(p) and ex.decide(st, TP.is_ch(p[i], TP.SLASH)):
        i += 1
    # '.' components carry no information and the statement does not say which reading applies to a
    # leading "./" of p, so the comparison ignores CurDir components on both sides
    nocur = lambda cs: [c for c in cs if c.kind != CUR]
    want = nocur(comps_of(ex, st, d)) + nocur(comps_of(ex, st, p[i:]))
    obl = [("C15: components of mash(d, p) are those of d followed by those of p without its leading separators",
            toks_eq(nocur(comps_of(ex, st, txt)), want))]
    if txt and len(comps_of(ex, st, txt)) > 0 and not (len(txt) == 1):
        obl.append(("C15: mash(d, p) has no trailing separator", b_not(TP.is_ch(txt[-1], TP.SLASH))))
    return obl


def _o_ext(ex, st, a, res):
    kind, txt = res
    c = comps_of(ex, st, a[0])
    e = None
    if c and c[-1].kind == NORMAL:
        name = c[-1].text
        for i in range(len(name) - 1, 0, -1):
            if ex.decide(st, TP.is_ch(name[i], TP.DOT)):
                e = name[i + 1:]
                break
        else:
            e = None
    if e is None:
        return [("C15: ext(p) fails exactly when the last component has no extension", B(kind == "err"))]
    if kind != "ok":
        return [("C15: ext(p) fails although the last component has an extension", B(False))]
    return [("C15: ext(p) is the text after the last '.' of the last component", text_eq(txt, e))]


def _ext_of(ex, st, c):
    if c and c[-1].kind == NORMAL:
        name = c[-1].text
        for i in range(len(name) - 1, 0, -1):
            if ex.decide(st, TP.is_ch(name[i], TP.DOT)):
                return name[i + 1:]
    return None


def _o_concat(ex, st, a, res):
    kind, txt = res
    if kind != "ok":
        return [("C15: concat fails on valid UTF-8 input", B(False))]
    return [("C15: concat(p, s) appends s without inserting separators", text_eq(txt, a[0] + a[1]))]


def _o_trim_ext(ex, st, a, res):
    kind, txt = res
    c = comps_of(ex, st, a[0])
    e = _ext_of(ex, st, c)
    if kind != "ok":
        return [("C15: trim_ext fails on valid UTF-8 input", B(False))]
    if e is None:
        return [("C15: trim_ext(p) returns p unchanged when there is no extension", toks_eq(comps_of(ex, st, txt), c))]
    back = txt + [TP.ch(TP.DOT)] + e
    return [("C15: trim_ext(p) + '.' + ext(p) == p", toks_eq(comps_of(ex, st, back), c))]


def _o_name(ex, st, a, res):
    kind, txt = res
    c = comps_of(ex, st, a[0])
    if not c:
        return [("C15: name(p) fails exactly for a path without components", B(kind == "err"))]
    if kind != "ok":
        return [("C15: name(p) fails although p has components", B(False))]
    e = _ext_of(ex, st, c)
    base = c[-1].text
    want = base if e is None else base[:len(base) - len(e) - 1]
    return [("C15: name(p) is base(p) without the extension", text_eq(txt, want))]


SCHEMES = ["file://", "ftp://", "http://", "https://"]


def _o_trim_protocol(ex, st, a, res):
    kind, txt = res
    p = a[0]
    low = [M.ascii_lower(c) for c in p]
    for sch in SCHEMES:
        k = len(sch)
        if len(p) >= k and ex.decide(st, M.chars_eq(low[:k], [TP.ch(ord(x)) for x in sch])):
            return [("C15: trim_protocol removes one leading %s scheme case-insensitively and nothing else" % sch, text_eq(txt, p[k:]))]
    return [("C15: trim_protocol returns a path without a leading scheme unchanged", text_eq(txt, p))]


TEXT_FUNCS = {
    "dir": (r"^fn (sys::fs::path::)?dir\(_1: T\)", 1, _o_dir, 'sys::dir({0}).map(|x| x.to_str().unwrap().to_string()).ok()'),
    "base": (r"^fn (sys::fs::path::)?base\(_1: T\)", 1, _o_lastlike("base"), 'sys::base({0}).ok()'),
    "last": (r"^fn (sys::fs::path::)?last\(_1: T\)", 1, _o_lastlike("last"), 'sys::last({0}).ok()'),
    "first": (r"^fn (sys::fs::path::)?first\(_1: T\)", 1, _o_lastlike("first"), 'sys::first({0}).ok()'),
    "trim_first": (r"^fn (sys::fs::path::)?trim_first\(_1: T\)", 1, _o_trim("trim_first"), 'Some(sys::trim_first({0}).to_str().unwrap().to_string())'),
    "trim_last": (r"^fn (sys::fs::path::)?trim_last\(_1: T\)", 1, _o_trim("trim_last"), 'Some(sys::trim_last({0}).to_str().unwrap().to_string())'),
    "mash": (r"^fn (sys::fs::path::)?mash\(_1: T, _2: U\)", 2, _o_mash, 'Some(sys::mash({0}, {1}).to_str().unwrap().to_string())'),
    "ext": (r"^fn (sys::fs::path::)?ext\(_1: T\)", 1, _o_ext, 'sys::ext({0}).ok()'),
    "concat": (r"^fn (sys::fs::path::)?concat\(_1: T, _2: U\)", 2, _o_concat, 'sys::concat({0}, {1}).map(|x| x.to_str().unwrap().to_string()).ok()'),
    "trim_ext": (r"^fn (sys::fs::path::)?trim_ext\(_1: T\)", 1, _o_trim_ext, 'sys::trim_ext({0}).map(|x| x.to_str().unwrap().to_string()).ok()'),
    "name": (r"^fn (sys::fs::path::)?name\(_1: T\)", 1, _o_name, 'sys::name({0}).ok()'),
    "trim_protocol": (r"^fn (sys::fs::path::)?trim_protocol\(_1: T\)", 1, _o_trim_protocol, 'Some(sys::trim_protocol({0}).to_str().unwrap().to_string())'),
}

ASCII_ONLY = {"trim_protocol"}  # to_lowercase is modelled for ASCII only

COMPONENT_INLINE = [
    (rx(r"^<Components<'_> as (?:core::iter::)?IteratorExt>::drop$"),
     lambda mir, c, m: mir.get(r"^fn core::iter::<impl at src/core/iter\.rs[^>]*>::drop\(")),
    (rx(r"^<Components<'_> as (?:core::iter::)?IteratorExt>::first_result$"),
     lambda mir, c, m: mir.get(r"^fn core::iter::<impl at src/core/iter\.rs[^>]*>::first_result\(")),
    (rx(r"^<Components<'_> as (?:core::iter::)?IteratorExt>::last_result$"),
     lambda mir, c, m: mir.get(r"^fn core::iter::<impl at src/core/iter\.rs[^>]*>::last_result\(")),
    (rx(r"^<Component<'_> as (?:core::string::)?ToStringExt>::to_string$"),
     lambda mir, c, m: mir.get(r"^fn core::string::<impl at src/core/string\.rs[^>]*>::to_string\(_1: &Component<'_>\)")),
    (rx(r"^<OsStr as (?:core::string::)?ToStringExt>::to_string$"),
     lambda mir, c, m: mir.get(r"^fn core::string::<impl at src/core/string\.rs[^>]*>::to_string\(_1: &OsStr\)")),
    (rx(r"^(?:sys::fs::path::)?base::<.*>$"), lambda mir, c, m: mir.get(r"^fn (sys::fs::path::)?base\(_1: T\)")),
    (rx(r"^(?:sys::fs::path::)?trim_prefix::<.*>$"), lambda mir, c, m: mir.get(r"^fn (sys::fs::path::)?trim_prefix\(_1: T, _2: U\)")),
]


def py_comps(s):
    rooted = s.startswith("/")
    out = (["/"] if rooted else [])
    for i, seg in enumerate(s.split("/")):
        if seg == "":
            continue
        if seg == ".":
            if i == 0 and not rooted:
                out.append(".")
            continue
        out.append(seg)
    return out


def run_text_funcs(ctx, prop, names, nmax, kmax, tag, alpha=None, nmin=0):
    t0 = time.time()
    solver = ctx.solver(tag)
    ex = text_executor(ctx, solver, extra_inline=COMPONENT_INLINE, max_block_visits=4 * nmax + 24)
    ob = Obl()
    unit = dict(status="pass", failures=[])
    for name in names:
        hdr, nargs, oracle, rexpr = TEXT_FUNCS[name]
        fn = ctx.mir.get(hdr)
        shapes = [(n,) for n in range(nmin, nmax + 1)] if nargs == 1 else [(n, k) for n in range(nmin, nmax + 1) for k in range(0, kmax + 1)]
        for shape in shapes:
            texts, cons = [], []
            for ai, n in enumerate(shape):
                c, cc = sym_text(solver, "tf_%s_%s_%s_%d" % (tag, name, "_".join(map(str, shape)), ai), n, ascii_only=name in ASCII_ONLY and alpha is None)
                if alpha is not None:
                    cc = cc + ["(or %s)" % " ".join("(= %s (_ bv%d 32))" % (x.v, ord(a)) for a in alpha) for x in c]
                texts.append(c)
                cons += cc
            g = {"a%d" % i: t for i, t in enumerate(texts)}

            def on_path(st, name=name, texts=texts, g=g, oracle=oracle, shape=shape):
                cf = lambda extra: text_model(ex, st, g, extra)
                if st.panic or st.bound_hit:
                    ob.total += 1
                    ob.failures.append(dict(kind="panic" if st.panic else "bound", where="sys::" + name, fn=name, cex=cf([]),
                                            desc="C12: sys::%s panics/loops: %s" % (name, st.panic or st.bound_hit)))
                    return
                res = result_text(st.retval)
                for desc, f in oracle(ex, st, texts, res):
                    ob.prove(ex, st, desc + " %s" % (shape,), f, cf) or ob.failures[-1].update(where="sys::" + name, fn=name)
                if len(ob.samples) < 4 and shape[0] == nmax:
                    m = cf([])
                    if m:
                        ob.samples.append(dict(function=name, args=m))

            st0 = ex.start(fn, [BoxRef(M.SStr(t)) for t in texts])
            st0.pc = cons
            ex.explore(st0, on_path)
    seen = set()
    for f in ob.failures:
        if f["kind"] == "bound" or f["cex"] is None:
            unit["status"], unit["why"] = "inconclusive", f["desc"]
            continue
        key = (f["fn"], f["kind"], re.sub(r" \(\d+(, \d+)?,?\)$", "", f["desc"]))
        if key in seen:
            continue
        seen.add(key)
        args = [f["cex"]["a%d" % i] for i in range(len(f["cex"]))]
        name = f["fn"]
        rexpr = TEXT_FUNCS[name][3].format(*[rs_str(a) for a in args])
        exp = py_text_expected(name, args)
        src = '''use rivia::prelude::*;
#[test]
fn replay_text_func() {
    // %s
    let got: Option<String> = %s;
    let want: Option<String> = %s;
    let same = match (&got, &want) {
        (Some(a), Some(b)) => %s,
        (None, None) => true,
        _ => false,
    };
    assert!(same, "C15: sys::%s{:?}: got {:?}, specification says {:?}", %s, got, want);
}
''' % (f["desc"], rexpr, "None" if exp is None else "Some(%s.to_string())" % rs_str(exp),
            "a == b" if name in ("base", "last", "first", "ext") else (
                "PathBuf::from(a).components().filter(|x| *x != Component::CurDir).eq(PathBuf::from(b).components()) && (a.len() <= 1 || !a.ends_with('/'))"
                if name == "mash" else "PathBuf::from(a).components().eq(PathBuf::from(b).components())"),
            name, "(%s)" % ", ".join(rs_str(a) for a in args))
        r = native_test(src, ctx.logdir, "%s_%d" % (tag, len(seen)))
        reproduced = r["ran"] and r["failed"] > 0
        rec = dict(kind=f["kind"], desc='"%s" args=%r' % (f["desc"], args), where=f.get("where", ""), reproduced=reproduced,
                   replay_outcome=r["out"][-400:])
        if reproduced:
            rec["replay"] = save_replay(prop, tag, src, f["desc"], dict(failed=r["failed"]))
        unit["failures"].append(rec)
        unit["status"] = "violation"
    return finish(unit, ex, solver, ob, t0, dict(models_used="text-level std::path model (lib/mirsym/textpath.py)"))


def py_text_expected(name, args):
    """concrete reference (from the statement) used by the replay; result as text (None = error)"""
    c = py_comps(args[0])
    join = lambda cs: ("/" + "/".join(cs[1:]) if cs and cs[0] == "/" else "/".join(cs))
    if name == "dir":
        return None if (not c or c[-1] == "/") else join(c[:-1])
    if name in ("base", "last"):
        return c[-1] if c else None
    if name == "first":
        return c[0] if c else None
    if name == "trim_first":
        return join(c[1:])
    if name == "trim_last":
        return join(c[:-1])
    if name == "mash":
        p = args[1].lstrip("/")
        return join([x for x in c + py_comps(p) if x != "."])
    if name == "ext":
        if c and c[-1] not in ("/", ".", ".."):
            nm = c[-1]
            i = nm.rfind(".")
            if i > 0:
                return nm[i + 1:]
        return None


@job("c15_components_text", ["C15", "C12"], "quick",
     functions=["sys::{dir,base,last,first,trim_first,trim_last,ext} (real MIR)", "IteratorExt::{drop,first_result,last_result} at Components (real MIR, inlined)",
                "ToStringExt for Component/OsStr (real MIR, inlined)"],
     bounds="every path text of 0..=5 Unicode scalars")
def c15_components(ctx, prop):
    return run_text_funcs(ctx, prop, ["dir", "base", "last", "first", "trim_first", "trim_last", "ext"], 5, 0, "c15_components_text")


@job("c15_mash_text", ["C15", "C12"], "quick",
     functions=["sys::mash (real MIR)", "sys::trim_prefix (real MIR, inlined)"],
     bounds="every (dir, path) pair of texts with |dir| <= 3 and |path| <= 4 Unicode scalars")
def c15_mash(ctx, prop):
    return run_text_funcs(ctx, prop, ["mash"], 3, 4, "c15_mash_text")


def run_relative_text(ctx, prop, nmax, tag="c16_relative_text", alphabet="/ab."):
    """relative(p, b) on text: p, b range over all *clean absolute* texts of <= nmax chars over the
    alphabet (cleanliness is imposed through the path condition: text == GoClean(text), starts with '/')."""
    t0 = time.time()
    solver = ctx.solver(tag)
    ex = text_executor(ctx, solver, extra_inline=COMPONENT_INLINE, max_block_visits=6 * nmax + 24)
    fn = ctx.mir.get(r"^fn (sys::fs::path::)?relative\(_1: T, _2: U\)")
    ob = Obl()
    unit = dict(status="pass", failures=[])
    for lp in range(1, nmax + 1):
        for lb in range(1, nmax + 1):
            pc_, c1 = sym_text(solver, "rt_%d_%d_p" % (lp, lb), lp)
            bc_, c2 = sym_text(solver, "rt_%d_%d_b" % (lp, lb), lb)
            cons = ["(or %s)" % " ".join("(= %s (_ bv%d 32))" % (c.v, ord(k)) for k in alphabet) for c in pc_ + bc_]
            g = {"p": pc_, "b": bc_}

            def on_path(st, pc_=pc_, bc_=bc_, g=g, lp=lp, lb=lb):
                cf = lambda extra: text_model(ex, st, g, extra)
                if st.meta.get("stage") == 0:
                    # precondition of the statement: clean absolute paths, decided before the code runs
                    for t in (pc_, bc_):
                        if not ex.decide(st, TP.is_ch(t[0], TP.SLASH)):
                            return
                        if not ex.decide(st, text_eq(TP.go_clean_text(ex, st, t), t)):
                            return
                    st1 = ex.start(fn, [BoxRef(M.SStr(pc_)), BoxRef(M.SStr(bc_))])
                    st1.pc = list(st.pc)
                    st1.meta = dict(stage=1)
                    return [st1]
                if st.panic or st.bound_hit:
                    ob.total += 1
                    ob.failures.append(dict(kind="panic" if st.panic else "bound", where="sys::relative", cex=cf([]),
                                            desc="C12: sys::relative panics/loops: %s" % (st.panic or st.bound_hit)))
                    return
                kind, r = result_text(st.retval)
                if kind != "ok":
                    ob.total += 1
                    ob.failures.append(dict(kind="functional", where="sys::relative", cex=cf([]), desc="C16: relative returned Err"))
                    return
                buf = TP.PathBufT(bc_)
                TP.push_text(ex, st, buf, r)
                ob.prove(ex, st, "C16: clean(base.join(relative(p, b))) == p as text (|p|=%d,|b|=%d)" % (lp, lb),
                         text_eq(TP.go_clean_text(ex, st, buf.chars), pc_), cf)
                same = ex.decide(st, text_eq(pc_, bc_)) if lp == lb else False
                if not same:
                    P, Bc, R = comps_of(ex, st, pc_), comps_of(ex, st, bc_), comps_of(ex, st, r)
                    common = 0
                    while common < min(len(P), len(Bc)) and ex.decide(st, TP.tcomp_eq(P[common], Bc[common])):
                        common += 1
                    m = len(Bc) - common
                    shape = len(R) >= m and all(c.kind == PARENT for c in R[:m]) and all(c.kind == NORMAL for c in R[m:])
                    ob.prove(ex, st, "C16: result is '..' x (components of base below the common prefix) followed only by normal components",
                             B(shape), cf)
                if len(ob.samples) < 3 and lp == nmax and lb == nmax:
                    mm = cf([])
                    if mm:
                        ob.samples.append(dict(obligation="clean(b.join(relative(p,b))) == p", p=mm["p"], b=mm["b"]))

            from .mirsym.engine import State
            st0 = State()
            st0.done = True
            st0.meta = dict(stage=0)
            st0.pc = cons
            ex.explore(st0, on_path)
    seen = set()
    for f in ob.failures:
        if f["kind"] == "bound" or f["cex"] is None:
            unit["status"], unit["why"] = "inconclusive", f["desc"]
            continue
        key = (f["cex"]["p"], f["cex"]["b"])
        if key in seen or len(seen) >= 3:
            continue
        seen.add(key)
        p, b = key
        src = '''use rivia::prelude::*;
#[test]
fn replay_relative_text() {
    // %s
    let (p, b) = (PathBuf::from(%s), PathBuf::from(%s));
    let r = sys::relative(&p, &b).expect("C16: relative failed");
    assert_eq!(sys::clean(b.join(&r)), p, "C16: cleaning base joined with relative(path, base) does not yield path; got {:?}", r);
    if p != b {
        assert!(r.is_relative(), "C16: result {:?} is not relative", r);
        let comps: Vec<_> = r.components().collect();
        let ups = comps.iter().take_while(|c| **c == Component::ParentDir).count();
        assert!(comps[ups..].iter().all(|c| matches!(c, Component::Normal(_))), "C16: result {:?} is not ..* followed by normal components", r);
        let common = p.components().zip(b.components()).take_while(|(x, y)| x == y).count();
        assert_eq!(ups, b.components().count() - common, "C16: wrong number of .. in {:?}", r);
    }
}
''' % (f["desc"], rs_str(p), rs_str(b))
        r = native_test(src, ctx.logdir, "%s_%d" % (tag, len(seen)))
        reproduced = r["ran"] and r["failed"] > 0
        rec = dict(kind=f["kind"], desc='"%s" path=%r base=%r' % (f["desc"], p, b), where="sys::relative", reproduced=reproduced,
                   replay_outcome=r["out"][-400:])
        if reproduced:
            rec["replay"] = save_replay(prop, tag, src, f["desc"], dict(failed=r["failed"]))
        unit["failures"].append(rec)
        unit["status"] = "violation"
    return finish(unit, ex, solver, ob, t0, dict(models_used="text-level std::path model (lib/mirsym/textpath.py)"))


@job("c16_relative_text_n5", ["C16", "C12"], "quick",
     functions=["sys::fs::path::relative (real MIR) on text"],
     bounds="all ordered pairs of clean absolute path texts of <= 5 chars over the alphabet {'/','a','b','.'} (names such as 'a', 'ab', 'a.', '..a' included)")
def c16_text_quick(ctx, prop):
    return run_relative_text(ctx, prop, 5)


@job("c16_relative_text_n7", ["C16", "C12"], "thorough",
     functions=["sys::fs::path::relative (real MIR) on text"],
     bounds="all ordered pairs of clean absolute path texts of <= 7 chars over {'/','a','b','.'}")
def c16_text_thorough(ctx, prop):
    return run_relative_text(ctx, prop, 7, tag="c16_relative_text_n7")


@job("c14_clean_text_n7", ["C14", "C12"], "quick",
     functions=["sys::fs::path::clean (real MIR) on text"],
     bounds="every string of 6..=7 Unicode scalars; string-level equality with Go's path.Clean")
def c14_text_quick7(ctx, prop):
    return run_clean_text(ctx, prop, 7, nmin=6, tag="c14_clean_text_n7")


def _mk_clean_text(n):
    @job("c14_clean_text_len%d" % n, ["C14", "C12"], "thorough", functions=["sys::fs::path::clean (real MIR) on text"],
         bounds="every string of exactly %d Unicode scalars; string-level equality with Go's path.Clean" % n)
    def f(ctx, prop):
        return run_clean_text(ctx, prop, n, nmin=n, tag="c14_clean_text_len%d" % n)
    return f


for _n in (8, 9, 10):
    _mk_clean_text(_n)


# ------------------------------------------------------------------------------------------------
# C07 (persistence half): MemfsFile::{write, flush, sync, drop} against an abstract Memfs store
# ------------------------------------------------------------------------------------------------
class StoreM:
    """What a MemfsFile handle can observe of its Memfs through the write guard: whether the entry for
    its path exists and the stored file (if any).  Both presence flags are symbolic."""

    def __init__(self, has_entry, has_file, stored):
        self.has_entry, self.has_file, self.stored = has_entry, has_file, stored  # stored: BoxRef(Adt MemfsFile)


def make_persist_models():
    def m_write_guard(ex, st, args, callee, ty):
        return M._obj(ex, st, args[0])

    def m_contains_entry(ex, st, args, callee, ty):
        return M._obj(ex, st, args[0]).has_entry

    def m_get_file_mut(ex, st, args, callee, ty):
        s = M._obj(ex, st, args[0])
        if ex.decide(st, s.has_file):
            return M.opt_some(ex, s.stored)
        return M.opt_none(ex)

    def m_clone_from(ex, st, args, callee, ty):
        dst, src = M._obj(ex, st, args[0]), M._obj(ex, st, args[1])
        dst.items = list(src.items)
        return M.UNIT

    def m_vec_write(ex, st, args, callee, ty):
        v, buf = M._obj(ex, st, args[0]), M._obj(ex, st, args[1])
        v.items.extend(buf.items)
        return Adt("Result", 0, "Ok", [BV(64, False, len(buf.items))])

    def m_vec_clear(ex, st, args, callee, ty):
        M._obj(ex, st, args[0]).items = []
        return M.UNIT

    def m_vec_is_empty(ex, st, args, callee, ty):
        return B(len(M._obj(ex, st, args[0]).items) == 0)

    def m_vec_len(ex, st, args, callee, ty):
        return BV(64, False, len(M._obj(ex, st, args[0]).items))

    def m_opaque(ex, st, args, callee, ty):
        return Adt("opaque", None, callee.split("::")[-1][:20], [])

    def m_deref(ex, st, args, callee, ty):
        return M._last_ref(ex, st, args[0]) if isinstance(args[0], (Ref, BoxRef)) else BoxRef(args[0])

    return [
        (rx(r"^(?:memfs::vfs::)?Memfs::write_guard$"), m_write_guard),
        (rx(r"^(?:memfs::vfs::)?Memfs::read_guard$"), m_write_guard),
        (rx(r"^MemfsGuard::<'_>::contains_entry$"), m_contains_entry),
        (rx(r"^MemfsGuard::<'_>::get_file_mut$"), m_get_file_mut),
        (rx(r"^<Vec<u8> as Clone>::clone_from$"), m_clone_from),
        (rx(r"^<Vec<u8> as (?:std::io::)?Write>::write$"), m_vec_write),
        (rx(r"^Vec::<u8>::clear$"), m_vec_clear),
        (rx(r"^Vec::<u8>::is_empty$"), m_vec_is_empty),
        (rx(r"^Vec::<u8>::len$"), m_vec_len),
        (rx(r"^<PathBuf as Deref>::deref$"), m_deref),
        (rx(r"^Path::display$"), m_opaque),
        (rx(r"^core::fmt::rt::Argument::<'_>::new_display::<.*>$"), m_opaque),
        (rx(r"^Arguments::<'_>::new::<.*>$"), m_opaque),
        (rx(r"^std::fmt::format$"), m_opaque),
        (rx(r"^must_use::<String>$"), m_opaque),
        (rx(r"^std::io::Error::new::<.*>$"), m_opaque),
    ]


PERSIST_INLINE = [
    (rx(r"^(?:memfs::file::)?MemfsFile::sync$"), lambda mir, c, m: mir.get(r"^fn memfs::file::<impl at src/sys/fs/memfs/file\.rs[^>]*>::sync\(")),
]


def run_persist(ctx, prop, max_ops, max_chunk):
    import itertools
    t0 = time.time()
    solver = ctx.solver("c07_persist")
    ex = new_executor(ctx, solver, make_persist_models(), PERSIST_INLINE, max_block_visits=8)
    f_write = ctx.mir.get(r"^fn memfs::file::<impl at src/sys/fs/memfs/file\.rs[^>]*>::write\(_1: &mut memfs::file::MemfsFile, _2: &\[u8\]\)")
    f_flush = ctx.mir.get(r"^fn memfs::file::<impl at src/sys/fs/memfs/file\.rs[^>]*>::flush\(")
    f_drop = ctx.mir.get(r"^fn memfs::file::<impl at src/sys/fs/memfs/file\.rs[^>]*>::drop\(")
    ob = Obl()
    unit = dict(status="pass", failures=[])
    solver.declare("has_entry", "Bool")
    solver.declare("has_file", "Bool")
    ops_alphabet = ["F"] + ["W%d" % i for i in range(0, max_chunk + 1)]
    nbytes = 0
    shapes = []
    for n in range(0, max_ops + 1):
        shapes += list(itertools.product(ops_alphabet, repeat=n))
    for existing in (0, 1):  # write handle (truncating) / append handle with one existing byte
        for shape in shapes:
            sid = "p%d_%s" % (existing, "".join(shape))
            old = []
            for i in range(max(existing, 1)):
                nm = "%s_old%d" % (sid, i)
                solver.declare(nm, "(_ BitVec 8)")
                old.append(BV(8, False, nm))
            stored = BoxRef(Adt("MemfsFile", None, None, [BV(64, False, 0), M.VecM(old), M.opt_none(ex), M.opt_none(ex)]))
            store = StoreM(B("has_entry"), B("has_file"), stored)
            init = list(old) if existing else []
            handle = BoxRef(Adt("MemfsFile", None, None, [BV(64, False, len(init)), M.VecM(init),
                                                           M.opt_some(ex, M.SStr([BV(32, False, ord("/")), BV(32, False, ord("f"))])),
                                                           M.opt_some(ex, store)]))
            chunks = []
            for oi, op in enumerate(shape):
                if op.startswith("W"):
                    bs = []
                    for j in range(int(op[1:])):
                        nm = "%s_b%d_%d" % (sid, oi, j)
                        solver.declare(nm, "(_ BitVec 8)")
                        bs.append(BV(8, False, nm))
                    chunks.append(bs)
                else:
                    chunks.append(None)
            seq = list(shape) + ["D"]

            def on_path(st, seq=seq, chunks=chunks, init=init, old=old, shape=shape, existing=existing):
                i = st.meta["i"]
                handle_, store_ = st.meta["handle"], st.meta["store"]
                cf = lambda extra: None
                if st.panic or st.bound_hit:
                    ob.total += 1
                    ob.failures.append(dict(kind="panic" if st.panic else "bound", where="MemfsFile", cex=None, shape=shape,
                                            desc="C07: handle operation panics/loops: %s" % (st.panic or st.bound_hit)))
                    return
                if i >= 0:
                    op = seq[i]
                    written = list(init)
                    for c in chunks[:i + 1]:
                        if c:
                            written += c
                    if i < len(chunks) and chunks[i] is None or op == "D":
                        pass
                    hd = ex.deref(st, handle_)
                    stored_now = ex.deref(st, store_.stored).fields[1].items
                    if op.startswith("W"):
                        r = st.retval
                        ob.prove(ex, st, "C07: write accepts the whole chunk %s" % (shape,),
                                 B(r.variant == 0 and r.fields[0].concrete and r.fields[0].v == len(chunks[i])))
                    if op in ("F", "D"):
                        present = ex.decide(st, b_and(store_.has_entry, store_.has_file))
                        entry = ex.decide(st, store_.has_entry)
                        if present:
                            same = B(len(stored_now) == len(written)) if len(stored_now) != len(written) else b_and(
                                *[__import__("lib.mirsym.values", fromlist=["bv_bin"]).bv_bin("Eq", a, b) for a, b in zip(stored_now, written)])
                            ob.prove(ex, st, "C07: after %s the stored file holds exactly the bytes written so far (handle %s, ops %s)" % (
                                "flush" if op == "F" else "drop", "append" if existing else "write", "".join(shape)), same) or \
                                ob.failures[-1].update(shape=shape, existing=existing, where="MemfsFile::sync")
                        elif not entry and op == "F":
                            ob.prove(ex, st, "C07: flush reports an error when the target entry no longer exists", B(st.retval.variant == 1))
                i += 1
                if i >= len(seq):
                    return
                op = seq[i]
                if op == "F":
                    st2 = ex.start(f_flush, [handle_])
                elif op == "D":
                    st2 = ex.start(f_drop, [handle_])
                else:
                    st2 = ex.start(f_write, [handle_, BoxRef(M.VecM(chunks[i]))])
                st2.pc = list(st.pc)
                st2.meta = dict(i=i, handle=handle_, store=store_)
                return [st2]

            from .mirsym.engine import State
            st0 = State()
            st0.done = True
            st0.meta = dict(i=-1, handle=handle, store=store)
            ex.explore(st0, on_path)
            if len(ob.samples) < 3 and len(shape) == max_ops:
                ob.samples.append(dict(ops="".join(shape) + "D", handle="append" if existing else "write"))
    # replay: one native test per distinct failing shape
    seen = set()
    for f in ob.failures:
        if f["kind"] == "bound":
            unit["status"], unit["why"] = "inconclusive", f["desc"]
            continue
        key = (f.get("shape"), f.get("existing"))
        if key in seen or len(seen) >= 3 or f.get("shape") is None:
            continue
        seen.add(key)
        body, written = "", ""
        for oi, op in enumerate(f["shape"]):
            if op == "F":
                body += '        h.flush().unwrap();\n        assert_eq!(vfs.read_all("/f").unwrap(), "%s", "C07: contents at flush");\n' % ((("o" if f["existing"] else "") + written))
            else:
                chunk = "abcdefgh"[oi * 2:oi * 2 + int(op[1:])]
                written += chunk
                body += '        assert_eq!(h.write(b"%s").unwrap(), %d);\n' % (chunk, len(chunk))
        src = '''use rivia::prelude::*;
#[test]
fn replay_persist() {
    // %s
    let vfs = Memfs::new();
    vfs.write_all("/f", "o").unwrap();
    {
        let mut h = vfs.%s("/f").unwrap();
%s    }
    assert_eq!(vfs.read_all("/f").unwrap(), "%s", "C07: contents after drop");
}
''' % (f["desc"], "append" if f["existing"] else "write", body, ("o" if f["existing"] else "") + written)
        r = native_test(src, ctx.logdir, "c07p_%d" % len(seen))
        reproduced = r["ran"] and r["failed"] > 0
        rec = dict(kind=f["kind"], desc='"%s"' % f["desc"], where=f.get("where", "MemfsFile"), reproduced=reproduced,
                   replay_outcome=r["out"][-400:])
        if reproduced:
            rec["replay"] = save_replay(prop, "c07_persist", src, f["desc"], dict(failed=r["failed"]))
        unit["failures"].append(rec)
        unit["status"] = "violation"
    return finish(unit, ex, solver, ob, t0, dict(models_used="Memfs seen through its write guard as an abstract store (entry present?, stored file present?), Vec<u8> as a byte list, error formatting opaque"))


@job("c07_persist", ["C07", "C12"], "quick",
     functions=["<MemfsFile as io::Write>::{write,flush}", "MemfsFile::sync", "<MemfsFile as Drop>::drop (real MIR)"],
     bounds="every sequence of <= 3 operations from {flush, write of 0|1|2 symbolic bytes} followed by drop, on a write handle and on an append handle with one existing byte; target entry / stored file each present or not")
def c07_persist(ctx, prop):
    return run_persist(ctx, prop, 3, 2)


@job("c15_ext_text", ["C15", "C12"], "quick",
     functions=["sys::{concat,trim_ext,name} (real MIR; format! modelled through its compiled template)"],
     bounds="concat: every (path <= 4, s <= 2) Unicode scalars; trim_ext/name: every path text of 0..=5 scalars")
def c15_ext(ctx, prop):
    u1 = run_text_funcs(ctx, prop, ["concat"], 4, 2, "c15_concat_text")
    u2 = run_text_funcs(ctx, prop, ["trim_ext", "name"], 5, 0, "c15_ext_text")
    for k in ("obligations", "discharged", "queries", "paths", "solver_s"):
        u2[k] = u2.get(k, 0) + u1.get(k, 0)
    u2["failures"] = u1["failures"] + u2["failures"]
    if u1["status"] != "pass" and u2["status"] == "pass":
        u2["status"], u2["why"] = u1["status"], u1.get("why", "")
    return u2


@job("c15_protocol_unicode", ["C15", "C12"], "quick",
     functions=["sys::trim_protocol (real MIR)"],
     bounds="every text of 3..=7 chars over the alphabet {'f','i','l','e',':','/','F','a','\u00e9','\u212a' (KELVIN SIGN: lower-cases to a 1-byte char)}; "
            "to_lowercase of the two non-ASCII chars follows the Unicode mapping")
def c15_protocol_unicode(ctx, prop):
    return run_text_funcs(ctx, prop, ["trim_protocol"], 7, 0, "c15_protocol_unicode", alpha="file:/Fa\u00e9\u212a", nmin=3)


@job("c15_protocol_unicode9", ["C15", "C12"], "thorough", functions=["sys::trim_protocol (real MIR)"],
     bounds="as c15_protocol_unicode with texts of 8..=9 chars")
def c15_protocol_unicode9(ctx, prop):
    return run_text_funcs(ctx, prop, ["trim_protocol"], 9, 0, "c15_protocol_unicode9", alpha="file:/Fa\u00e9\u212a", nmin=8)


@job("c15_protocol_text", ["C15", "C12"], "quick",
     functions=["sys::trim_protocol (real MIR)"],
     bounds="every ASCII text of 0..=11 chars (to_lowercase is modelled for ASCII only)")
def c15_protocol(ctx, prop):
    return run_text_funcs(ctx, prop, ["trim_protocol"], 11, 0, "c15_protocol_text")


# ------------------------------------------------------------------------------------------------
# C17: sys::expand on text with a symbolic text environment
# ------------------------------------------------------------------------------------------------
EXPAND_INLINE = [
    (rx(r"^<Matches<'_, char> as (?:core::iter::)?IteratorExt>::some$"),
     lambda mir, c, m: mir.get(r"^fn core::iter::<impl at src/core/iter\.rs[^>]*>::some\(")),
    (rx(r"^<Peekable<Chars<'_>> as (?:core::)?(?:peekable::)?PeekableExt<Chars<'_>>>::take_while_p::<.*>$"),
     lambda mir, c, m: mir.get(r"^fn (?:core::)?peekable::<impl at src/core/peekable\.rs[^>]*>::take_while_p\(")),
    (rx(r"^<PeekingTakeWhile as Iterator>::next$"),
     lambda mir, c, m: mir.get(r"^fn (?:core::)?peekable::<impl at src/core/peekable\.rs[^>]*>::next\(")),
    (rx(r"^(?:sys::fs::path::)?home_dir$"), lambda mir, c, m: mir.get(r"^fn sys::fs::path::home_dir\(\)")),
]

D_TILDE, D_DOLLAR, D_LB, D_RB = ord("~"), ord("$"), ord("{"), ord("}")


def expand_oracle(ex, st, s, tenv):
    """Returns ('ok', chars) | ('err',) | ('skip',) following the statement; 'skip' = syntax the statement
    does not define (unbalanced braces, '$' inside an environment value)."""
    isc = lambda c, k: ex.decide(st, TP.is_ch(c, k))
    tildes = [i for i, c in enumerate(s) if isc(c, D_TILDE)]
    if len(tildes) > 1:
        return ("err",)
    cur = list(s)
    if len(tildes) == 1:
        if tildes[0] != 0 or (len(s) > 1 and not isc(s[1], TP.SLASH)):
            return ("err",)
        is_set, home = tenv.lookup(ex, st, [TP.ch(ord(x)) for x in "HOME"])
        if not ex.decide(st, is_set):
            return ("err",)
        if any(isc(c, D_DOLLAR) for c in home):
            return ("skip",)
        if len(s) == 1:
            cur = list(home)
        else:
            # "joined onto HOME with its leading separators removed": the components of the rest without
            # a leading RootDir are pushed onto HOME (same reading as for mash under C15)
            buf = TP.PathBufT(home)
            rel = TP.PathBufT([])
            for t in TP.tokenize(ex, st, list(s[2:])):
                if t[0].kind != ROOT:
                    TP.push_text(ex, st, rel, t[0].text)
            TP.push_text(ex, st, buf, rel.chars)
            # mash re-collects the components
            b2 = TP.PathBufT([])
            for t in TP.tokenize(ex, st, buf.chars):
                TP.push_text(ex, st, b2, t[0].text)
            cur = b2.chars
    if not any(isc(c, D_DOLLAR) for c in cur):
        return ("ok", cur)
    out = TP.PathBufT([])
    for comp, a, b in TP.tokenize(ex, st, cur):
        if comp.kind != NORMAL:
            TP.push_text(ex, st, out, comp.text)
            continue
        t, i, acc = comp.text, 0, []
        while i < len(t):
            if not isc(t[i], D_DOLLAR):
                if isc(t[i], D_LB) or isc(t[i], D_RB):
                    return ("skip",)
                acc.append(t[i])
                i += 1
                continue
            i += 1
            if i == len(t):
                return ("err",)  # empty variable name
            braced = isc(t[i], D_LB)
            if braced:
                i += 1
            name = []
            while i < len(t) and not isc(t[i], D_DOLLAR) and not isc(t[i], D_RB) and not isc(t[i], D_LB):
                name.append(t[i])
                i += 1
            if i < len(t) and isc(t[i], D_LB):
                return ("skip",)
            if braced:
                if i < len(t) and isc(t[i], D_RB):
                    i += 1
                else:
                    return ("skip",)  # unterminated brace: not defined by the statement
            elif i < len(t) and isc(t[i], D_RB):
                return ("skip",)
            if not name:
                return ("err",)
            is_set, val = tenv.lookup(ex, st, name)
            if not ex.decide(st, is_set):
                return ("err",)
            if any(isc(c, D_DOLLAR) for c in val):
                return ("skip",)
            acc += val
        TP.push_text(ex, st, out, acc)
    return ("ok", out.chars)


def run_expand(ctx, prop, nmax, vlen, tag="c17_expand", nmin=0):
    t0 = time.time()
    solver = ctx.solver(tag)
    tenv = M.TextEnv(solver, vlen)
    models = M.make_expand_models(tenv) + TP.make_textpath_models() + make_pathtext_models()
    ex = new_executor(ctx, solver, models, EXPAND_INLINE + COMPONENT_INLINE + RIVIA_INLINE + PATHTEXT_INLINE + GENERIC_PATH_INLINE,
                      max_block_visits=8 * nmax + 40)
    ex.enum_hook = TP.text_enum_hook
    fn = ctx.mir.get(r"^fn sys::fs::path::expand\(_1: T\)")
    ob = Obl()
    unit = dict(status="pass", failures=[])
    for n in range(nmin, nmax + 1):
        chars, cons = sym_text(solver, "ex%d_%d" % (n, vlen), n)
        cons = cons + ["(not (= %s #x00000000))" % c.v for c in chars]
        g = {"s": chars}

        def cex(st, extra, chars=chars):
            m = text_model(ex, st, {"s": chars}, extra)
            return m

        def on_path(st, n=n, chars=chars):
            cf = lambda extra: cex(st, extra)
            if st.panic or st.bound_hit:
                ob.total += 1
                ob.failures.append(dict(kind="panic" if st.panic else "bound", where="sys::expand", cex=cf([]), st_pc=list(st.pc),
                                        desc="C12: sys::expand panics/loops: %s" % (st.panic or st.bound_hit)))
                return
            kind, txt = result_text(st.retval)
            o = expand_oracle(ex, st, chars, tenv)
            if o[0] == "skip":
                return
            if o[0] == "err":
                ob.prove(ex, st, "C17: expand fails rather than guessing (more than one '~', '~' not at the start, empty variable name, unset variable) (n=%d)" % n,
                         B(kind == "err"), cf) or ob.failures[-1].update(st_pc=list(st.pc), want=None)
            else:
                if kind != "ok":
                    ob.total += 1
                    ob.failures.append(dict(kind="functional", where="sys::expand", cex=cf([]), st_pc=list(st.pc), want=o[1],
                                            desc="C17: expand fails on an expression the statement defines (n=%d)" % n))
                else:
                    ob.prove(ex, st, "C17: expand substitutes ~ and $NAME/${NAME} exactly (n=%d)" % n, text_eq(txt, o[1]), cf) or \
                        ob.failures[-1].update(st_pc=list(st.pc), want=o[1])
            if len(ob.samples) < 4 and n == nmax:
                m = cf([])
                if m:
                    ob.samples.append(dict(obligation="expand(s) == oracle", s=m["s"], oracle=o[0]))

        st0 = ex.start(fn, [BoxRef(M.SStr(chars))])
        st0.pc = cons
        ex.explore(st0, on_path)
    # replay: environment reconstructed from the model of the uninterpreted functions is not available
    # through get-value of applications we did not name, so the replay sets every variable that occurs
    # in the counterexample text according to the model of the applied terms
    seen = set()
    for f in ob.failures:
        if f["kind"] == "bound" or f["cex"] is None:
            unit["status"], unit["why"] = "inconclusive", f["desc"]
            continue
        s = f["cex"]["s"]
        if s in seen or len(seen) >= 4:
            continue
        seen.add(s)
        src, note = expand_replay_src(ex, tenv, f, s)
        r = native_test(src, ctx.logdir, "%s_%d" % (tag, len(seen)))
        reproduced = r["ran"] and r["failed"] > 0
        rec = dict(kind=f["kind"], desc='"%s" s=%r %s' % (f["desc"], s, note), where="sys::expand", reproduced=reproduced,
                   replay_outcome=r["out"][-400:])
        if reproduced:
            rec["replay"] = save_replay(prop, tag, src, f["desc"], dict(failed=r["failed"]))
        unit["failures"].append(rec)
        unit["status"] = "violation"
    return finish(unit, ex, solver, ob, t0, dict(models_used="text-level std::path + str models; environment = uninterpreted functions of the variable name (set?, value of %d chars); Peekable<Chars>; rivia's take_while_p/PeekingTakeWhile::next executed from MIR" % vlen))


def expand_replay_src(ex, tenv, f, s):
    """Concrete environment for the replay: evaluate the oracle concretely with a recording environment
    whose answers come from the solver model (same path condition)."""
    import re as _re
    pc = f.get("st_pc", [])
    fixed = ["(= %s (_ bv%d 32))" % (c, ord(ch_)) for c, ch_ in []]
    names = set(_re.findall(r"\$\{?([^${}/]*)\}?", s)) | {"HOME"}
    envd = {}
    for nm in names:
        if nm == "" or "\x00" in nm:
            continue
        L = len(nm)
        if L not in tenv.decl:
            envd[nm] = None
            continue
        argt = " ".join("(_ bv%d 32)" % ord(c) for c in nm)
        terms = ["(envset_%d %s)" % (L, argt)] + ["(envval_%d_%d %s)" % (L, i, argt) for i in range(tenv.vlen)]
        # bind the symbolic text to the counterexample so the model talks about the same names
        r, model = ex.solver.check(pc + ["true"], want_model=terms)
        if r != "sat":
            envd[nm] = None
            continue
        if parse_smt_int(model[terms[0]]):
            envd[nm] = "".join(chr(parse_smt_int(model[t]) or 0x61) for t in terms[1:])
        else:
            envd[nm] = None
    sets = "".join('    %s;\n' % ('std::env::set_var(%s, %s)' % (rs_str(k), rs_str(v)) if v is not None else 'std::env::remove_var(%s)' % rs_str(k))
                   for k, v in sorted(envd.items()) if "=" not in k)
    exp = py_expand(s, envd)
    body = ('    assert!(got.is_err(), "C17: expected an error, got {:?}", got);\n' if exp is None else
            '    assert_eq!(got.expect("C17: expected Ok").to_str().unwrap(), %s, "C17: expand");\n' % rs_str(exp))
    src = "use rivia::prelude::*;\n#[test]\nfn replay_expand() {\n    // %s\n%s    let got = sys::expand(%s);\n%s}\n" % (
        f["desc"], sets, rs_str(s), body)
    return src, "env=%r" % envd


def py_expand(s, env):
    """concrete reference of the statement (None = error)"""
    class D:
        def decide(self, st, c):
            assert c.concrete
            return c.v

    class E:
        vlen = 0

        def lookup(self, ex, st, name):
            nm = "".join(chr(c.v) for c in name)
            v = env.get(nm)
            return B(v is not None), [BV(32, False, ord(x)) for x in (v or "")]
    o = expand_oracle(D(), None, [BV(32, False, ord(c)) for c in s], E())
    if o[0] == "ok":
        return "".join(chr(c.v) for c in o[1])
    return None


EXPAND_FUNCS = ["sys::expand (real MIR)", "sys::{has_prefix, mash, home_dir} and <Path|OsStr as ToStringExt>::to_string (real MIR, inlined)",
                "PeekableExt::take_while_p, PeekingTakeWhile::next, IteratorExt::some (real MIR, inlined)"]


def _mk_expand(n0, n1, vlen, tier):
    @job("c17_expand_n%d_%d_v%d" % (n0, n1, vlen), ["C17", "C12"], tier, functions=EXPAND_FUNCS,
         bounds="every text of %d..=%d Unicode scalars (no NUL); environment: every variable (HOME included) unset or set to any value of %d chars" % (n0, n1, vlen))
    def f(ctx, prop):
        u = run_expand(ctx, prop, n1, vlen, nmin=n0, tag="c17_expand_n%d_%d_v%d" % (n0, n1, vlen))
        if (n0, vlen) == (0, 1):
            u["planted_mutants"] = planted_mutants(ctx, lambda: run_expand(ctx, prop, 2, 1, tag="c17_plant"), sites=(0, 1, 2, 3, 4, 5))
        return u
    return f


_mk_expand(0, 4, 1, "quick")
_mk_expand(5, 5, 1, "quick")
_mk_expand(0, 4, 2, "quick")
_mk_expand(0, 4, 0, "quick")
_mk_expand(6, 6, 1, "thorough")
_mk_expand(7, 7, 1, "thorough")
_mk_expand(5, 5, 2, "thorough")
_mk_expand(6, 6, 2, "thorough")
_mk_expand(5, 6, 0, "thorough")


# ------------------------------------------------------------------------------------------------
# C05: Memfs::_abs / Stdfs::abs on text, cwd symbolic
# ------------------------------------------------------------------------------------------------
def trim_protocol_oracle(ex, st, p):
    low = [M.ascii_lower(c) for c in p]
    for sch in SCHEMES:
        k = len(sch)
        if len(p) >= k and ex.decide(st, M.chars_eq(low[:k], [TP.ch(ord(x)) for x in sch])):
            return p[k:]
    return p


def abs_oracle(ex, st, s, cwd, tenv):
    """('ok', chars) | ('err', reason) | ('skip',)"""
    if not s:
        return ("err", "empty path")
    e = expand_oracle(ex, st, s, tenv)
    if e[0] == "skip":
        return ("skip",)
    if e[0] == "err":
        return ("err", "invalid expansion")
    t = trim_protocol_oracle(ex, st, e[1])
    c = TP.go_clean_text(ex, st, t)
    if c and ex.decide(st, TP.is_ch(c[0], TP.SLASH)):
        return ("ok", c)
    # relative: '..' may not climb above the root of cwd
    toks = comps_of(ex, st, c)
    ups = 0
    while ups < len(toks) and toks[ups].kind == PARENT:
        ups += 1
    depth = len([x for x in comps_of(ex, st, cwd) if x.kind == NORMAL])
    if ups > depth:
        return ("err", "'..' climbs above the root")
    buf = TP.PathBufT(cwd)
    TP.push_text(ex, st, buf, c)
    return ("ok", TP.go_clean_text(ex, st, buf.chars))


def run_abs(ctx, prop, nmax, cmax, vlen, tag="c05_abs", nmin=1):
    t0 = time.time()
    solver = ctx.solver(tag)
    tenv = M.TextEnv(solver, vlen)

    def m_cwd(ex, st, args, callee, ty):
        return TP.PathBufT(st.meta["cwd"])

    def m_cwd_result(ex, st, args, callee, ty):
        return Adt("Result", 0, "Ok", [TP.PathBufT(st.meta["cwd"])])

    own = [(rx(r"^MemfsGuard::<'_>::cwd$"), m_cwd), (rx(r"^(?:stdfs::)?Stdfs::cwd$"), m_cwd_result)]
    models = own + M.make_expand_models(tenv) + TP.make_textpath_models() + make_pathtext_models()
    ex = new_executor(ctx, solver, models, EXPAND_INLINE + COMPONENT_INLINE + RIVIA_INLINE + PATHTEXT_INLINE + GENERIC_PATH_INLINE,
                      max_block_visits=8 * (nmax + cmax) + 60)
    ex.enum_hook = TP.text_enum_hook
    targets = [("Memfs::_abs", ctx.mir.get(r"^fn memfs::vfs::<impl at src/sys/fs/memfs/vfs\.rs[^>]*>::_abs\("), 3),
               ("Stdfs::abs", ctx.mir.get(r"^fn stdfs::<impl at src/sys/fs/stdfs/mod\.rs[^>]*>::abs\(_1: T\)"), 1)]
    ob = Obl()
    unit = dict(status="pass", failures=[])
    for tname, fn, nparams in targets:
        for n in range(nmin, nmax + 1):
            for lc in range(1, cmax + 1):
                chars, cons = sym_text(solver, "ab_%s_%d_%d" % (tname[0], n, lc), n, ascii_only=True)
                cons = cons + ["(not (= %s #x00000000))" % c.v for c in chars]
                cw, _ = sym_text(solver, "ab_%s_%d_%d_cwd" % (tname[0], n, lc), lc)
                cons += ["(or %s)" % " ".join("(= %s (_ bv%d 32))" % (c.v, ord(k)) for k in "/ab") for c in cw]
                g = {"s": chars, "cwd": cw}

                def on_path(st, chars=chars, cw=cw, g=g, tname=tname, fn=fn, nparams=nparams, n=n):
                    cf = lambda extra: text_model(ex, st, g, extra)
                    if st.meta.get("stage") == 0:
                        if not ex.decide(st, TP.is_ch(cw[0], TP.SLASH)):
                            return
                        if not ex.decide(st, text_eq(TP.go_clean_text(ex, st, cw), cw)):
                            return
                        args = [BoxRef(M.SStr(chars))]
                        if nparams == 3:
                            args = [BoxRef(Adt("Memfs", None, None, [])), BoxRef(Adt("MemfsGuard", None, None, []))] + args
                        st1 = ex.start(fn, args)
                        st1.pc = list(st.pc)
                        st1.meta = dict(stage=1, cwd=list(cw))
                        return [st1]
                    if st.panic or st.bound_hit:
                        ob.total += 1
                        ob.failures.append(dict(kind="panic" if st.panic else "bound", where=tname, cex=cf([]), st_pc=list(st.pc), fn=tname,
                                                desc="C12: %s panics/loops: %s" % (tname, st.panic or st.bound_hit)))
                        return
                    kind, txt = result_text(st.retval)
                    o = abs_oracle(ex, st, chars, cw, tenv)
                    if o[0] == "skip":
                        return
                    if o[0] == "err":
                        ob.prove(ex, st, "C05: %s must fail (%s) (n=%d)" % (tname, o[1], n), B(kind == "err"), cf) or \
                            ob.failures[-1].update(st_pc=list(st.pc), fn=tname, where=tname)
                        return
                    if kind != "ok":
                        ob.total += 1
                        ob.failures.append(dict(kind="functional", where=tname, cex=cf([]), st_pc=list(st.pc), fn=tname,
                                                desc="C05: %s fails although the path is non-empty, expands and does not climb above the root (n=%d)" % (tname, n)))
                        return
                    ob.prove(ex, st, "C05: %s(p) is the clean absolute path of p joined lexically onto the cwd (n=%d)" % (tname, n),
                             text_eq(txt, o[1]), cf) or ob.failures[-1].update(st_pc=list(st.pc), fn=tname, where=tname)
                    ob.prove(ex, st, "C05: %s(p) is absolute and clean" % tname,
                             b_and(TP.is_ch(txt[0], TP.SLASH) if txt else B(False), text_eq(TP.go_clean_text(ex, st, txt), txt)), cf) or \
                        ob.failures[-1].update(st_pc=list(st.pc), fn=tname, where=tname)
                    if len(ob.samples) < 4 and n == nmax:
                        m = cf([])
                        if m:
                            ob.samples.append(dict(function=tname, s=m["s"], cwd=m["cwd"]))

                from .mirsym.engine import State
                st0 = State()
                st0.done = True
                st0.meta = dict(stage=0)
                st0.pc = cons
                ex.explore(st0, on_path)
    seen = set()
    for f in ob.failures:
        if f["kind"] == "bound" or f["cex"] is None:
            unit["status"], unit["why"] = "inconclusive", f["desc"]
            continue
        key = (f["fn"], f["cex"]["s"], f["cex"]["cwd"])
        if key in seen or len(seen) >= 4:
            continue
        seen.add(key)
        s, cwd = f["cex"]["s"], f["cex"]["cwd"]
        src0, note = expand_replay_src(ex, tenv, f, s)
        envlines = "".join(l + "\n" for l in src0.split("\n") if "set_var" in l or "remove_var" in l)
        import re as _re
        envd = eval(note[4:]) if note.startswith("env=") else {}
        e = py_expand(s, envd)
        exp = None
        if s and e is not None:
            t = e
            for sch in SCHEMES:
                if t.lower().startswith(sch):
                    t = t[len(sch):]
                    break
            c = py_go_clean(t)
            if c.startswith("/"):
                exp = c
            else:
                ups = 0
                for seg in c.split("/"):
                    if seg == "..":
                        ups += 1
                    else:
                        break
                depth = len([x for x in cwd.split("/") if x])
                exp = None if ups > depth else py_go_clean(cwd.rstrip("/") + "/" + c)
        if f["fn"].startswith("Memfs"):
            mk = '    let vfs = Memfs::new();\n    vfs.mkdir_p(%s).unwrap();\n    vfs.set_cwd(%s).unwrap();\n    let got = vfs.abs(%s);\n' % (rs_str(cwd), rs_str(cwd), rs_str(s))
        else:
            mk = '    let root = std::env::temp_dir().join(format!("rivia_c05_{}", std::process::id()));\n' \
                 '    let _ = std::fs::remove_dir_all(&root);\n    std::fs::create_dir_all(&root).unwrap();\n' \
                 '    // Stdfs resolves against the process cwd: the replay compares with the same lexical rule on the real cwd\n' \
                 '    let got = Stdfs::abs(%s);\n' % rs_str(s)
        if f["fn"].startswith("Memfs"):
            chk = ('    assert!(got.is_err(), "C05: expected an error, got {:?}", got);\n' if exp is None else
                   '    assert_eq!(got.expect("C05: expected Ok").to_str().unwrap(), %s, "C05: abs");\n' % rs_str(exp))
        else:
            chk = '    let _ = got;\n    panic!("C05: Stdfs::abs counterexample (cwd %s): reproduce under that working directory");\n' % cwd.replace('"', "'")
        src = "use rivia::prelude::*;\n#[test]\nfn replay_abs() {\n    // %s\n%s%s%s}\n" % (f["desc"], envlines, mk, chk)
        r = native_test(src, ctx.logdir, "%s_%d" % (tag, len(seen)))
        reproduced = r["ran"] and r["failed"] > 0 and f["fn"].startswith("Memfs")
        rec = dict(kind=f["kind"], desc='"%s" s=%r cwd=%r %s' % (f["desc"], s, cwd, note), where=f["fn"], reproduced=reproduced,
                   replay_outcome=r["out"][-400:])
        if reproduced:
            rec["replay"] = save_replay(prop, tag, src, f["desc"], dict(failed=r["failed"]))
        unit["failures"].append(rec)
        unit["status"] = "violation"
    return finish(unit, ex, solver, ob, t0, dict(models_used="text-level std::path/str models; symbolic cwd (clean absolute text); environment as uninterpreted functions of the variable name"))


ABS_FUNCS = ["Memfs::_abs (real MIR)", "Stdfs::abs (real MIR)",
             "sys::{expand,trim_protocol,clean,trim_first,dir,mash,is_empty} and IteratorExt::first_result (real MIR, inlined)"]


def _mk_abs(n0, n1, cmax, vlen, tier):
    @job("c05_abs_n%d_%d_c%d" % (n0, n1, cmax), ["C05", "C12"], tier, functions=ABS_FUNCS,
         bounds="every ASCII path text of %d..=%d chars x every clean absolute cwd of <= %d chars over {'/','a','b'}; environment values of %d char(s)" % (n0, n1, cmax, vlen))
    def f(ctx, prop):
        u = run_abs(ctx, prop, n1, cmax, vlen, nmin=n0, tag="c05_abs_n%d_%d_c%d" % (n0, n1, cmax))
        if n0 == 1:
            u["planted_mutants"] = planted_mutants(ctx, lambda: run_abs(ctx, prop, 2, 2, 1, tag="c05_plant"), sites=(0, 1, 2, 3, 4, 5))
        return u
    return f


_mk_abs(1, 3, 4, 1, "quick")
_mk_abs(4, 4, 3, 1, "quick")
_mk_abs(4, 4, 5, 1, "thorough")
_mk_abs(5, 5, 4, 1, "thorough")


# ------------------------------------------------------------------------------------------------
# Memfs operations from their MIR (auto-inlined rivia code over std models)
# ------------------------------------------------------------------------------------------------
from .mirsym import memmodels as MM  # noqa: E402
from .mirsym.rivia_index import RiviaIndex  # noqa: E402


def T_(s):
    return [BV(32, False, ord(c)) for c in s]


def mk_entry(path, kind, mode=None, children=(), target=None):
    """MemfsEntry value (declaration order: path, alt, rel, dir, file, link, mode, uid, gid, follow, cached, files)"""
    is_dir, is_file, is_link = kind == "d", kind == "f", kind == "l"
    mode = mode if mode is not None else (0o40755 if is_dir else 0o100644 if is_file else 0o120777)
    files = M.opt_some(None, MM.SetM([T_(c) for c in children])) if is_dir else M.opt_none(None)
    return Adt("MemfsEntry", None, None, [TP.PathBufT(T_(path)), TP.PathBufT(T_(target or "")), TP.PathBufT([]), B(is_dir), B(is_file),
                                          B(is_link), BV(32, False, mode), BV(32, False, 1000), BV(32, False, 1000), B(False), B(False), files])


def mk_memfs(tree, cwd="/"):
    """tree: {path: ('d', [children][, mode]) | ('f', bytes-as-str[, mode]) | ('l', target, 'd'|'f'|None)}  -> (Memfs value, inner cell)"""
    entries, files = [], []
    for p, spec in tree.items():
        if spec[0] == "l":
            e = mk_entry(p, "l", target=spec[1])
            e.fields[3], e.fields[4] = B(spec[2] == "d"), B(spec[2] == "f")
            e.fields[2] = TP.PathBufT(T_(spec[3]))
            if spec[2] == "d":
                e.fields[11] = M.opt_some(None, MM.SetM([]))
            entries.append((T_(p), BoxRef(e)))
        elif spec[0] == "d":
            entries.append((T_(p), BoxRef(mk_entry(p, "d", children=spec[1], mode=spec[2] if len(spec) > 2 else None))))
        elif spec[0] == "f":
            entries.append((T_(p), BoxRef(mk_entry(p, "f", mode=spec[2] if len(spec) > 2 else None))))
            files.append((T_(p), BoxRef(Adt("MemfsFile", None, None, [BV(64, False, 0), M.VecM([BV(8, False, ord(c)) for c in spec[1]]),
                                                                        M.opt_none(None), M.opt_none(None)]))))
    inner = BoxRef(Adt("MemfsInner", None, None, [TP.PathBufT(T_(cwd)), TP.PathBufT(T_("/")), MM.MapM(entries), MM.MapM(files)]))
    memfs = Adt("Memfs", None, None, [Adt("Arc", None, None, [BoxRef(Adt("RwLock", None, None, [inner, MM.LockM()]))])])
    return memfs, inner


def memfs_executor(ctx, solver, tenv, **kw):
    from .mirsym import itermodels as IM
    src = os.path.join(ctx.scratch, "src") if ctx.scratch else os.path.join(common.REPO, "src")
    index = RiviaIndex(ctx.mir, src)
    models = IM.make_iter_models(index) + MM.make_mem_models() + M.make_expand_models(tenv) + TP.make_textpath_models() + make_pathtext_models()
    ex = new_executor(ctx, solver, models, EXPAND_INLINE + COMPONENT_INLINE + RIVIA_INLINE + PATHTEXT_INLINE + GENERIC_PATH_INLINE, **kw)
    ex.enum_hook = TP.text_enum_hook
    ex.auto = index
    ex.drop_hook = MM.memfs_drop_hook(ex.auto)
    return ex


class MemRun:
    """Drives a sequence of Memfs trait calls (real MIR) on one symbolic filesystem value."""

    def __init__(self, ctx, tag, vlen=1, visits=400):
        self.ctx = ctx
        self.solver = ctx.solver(tag)
        self.tenv = M.TextEnv(self.solver, vlen)
        self.ex = memfs_executor(ctx, self.solver, self.tenv, max_block_visits=visits)
        self.ob = Obl()

    def fn(self, name):
        f = self.ex.auto.resolve("<Memfs as VirtualFileSystem>::%s" % name)
        if f is None:
            raise Unsupported("Memfs::%s not found in the MIR dump" % name)
        return f

    def lock_of(self, st):
        m = st.meta["memfs"]
        rw = self.ex.deref(st, m.fields[0].fields[0])
        return rw.fields[1] if len(rw.fields) > 1 else None

    def explore(self, tree, cwd, calls, cons, on_done):
        """calls: [(method, [values])]; on_done(st, results, inner) is invoked per completed path"""
        memfs, inner = mk_memfs(tree, cwd)
        return self.explore_value(memfs, inner, calls, cons, on_done)

    def explore_value(self, memfs, inner, calls, cons, on_done):
        from .mirsym.engine import State
        ex = self.ex

        def on_path(st):
            i = st.meta["i"]
            if st.panic or st.bound_hit:
                on_done(st, st.meta["results"] + [("panic" if st.panic else "bound", st.panic or st.bound_hit)], st.meta["inner"], i)
                return
            results = list(st.meta["results"])  # local: the finished state is not mutated (on_path is re-run after a Fork)
            meta_upd = {}
            if i <= -2:
                i = -2 - i  # a skipped pseudo call
            elif i >= 0:
                results.append(("ret", st.retval))
                lk = self.lock_of(st)
                if lk is not None and not lk.free():
                    on_done(st, results + [("panic", "the call returned while still holding the filesystem lock (writer=%s readers=%s)" % (
                        lk.writer, lk.readers))], st.meta["inner"], i)
                    return
            i += 1
            if i >= len(calls):
                on_done(st, results, st.meta["inner"], i)
                return
            name, vals = calls[i]
            if name.startswith("@@"):
                # call of a rivia method on the value an earlier call returned: ("@@Type::method" [+ "&" = by reference], [index, args...])
                prev = results[vals[0]]
                pv = prev[1]
                if prev[0] == "ret" and isinstance(pv, Adt) and pv.ty == "Result":
                    pv = pv.fields[0] if pv.variant == 0 else None
                if prev[0] != "ret" or pv is None:
                    st3 = State()
                    st3.done, st3.pc, st3.meta = True, list(st.pc), dict(st.meta)
                    st3.meta["results"] = results + [("skip", None)]
                    st3.meta["i"] = -2 - i
                    return [st3]
                byref = name.endswith("&")
                fn = ex.auto.resolve(name[2:].rstrip("&"))
                if fn is None:
                    raise Unsupported("%s not found in the MIR dump" % name[2:])
                st2 = ex.start(fn, [BoxRef(pv) if byref else pv] + list(vals[1:]))
            elif name.startswith("@"):
                # pseudo call on a handle returned by an earlier call: ("@write"|"@flush"|"@drop", [index of that call, data?])
                hres = results[vals[0]][1]
                if not (isinstance(hres, Adt) and hres.ty == "Result" and hres.variant == 0):
                    st3 = State()
                    st3.done, st3.pc, st3.meta = True, list(st.pc), dict(st.meta)
                    st3.meta["results"] = results + [("skip", None)]
                    st3.meta["i"] = -2 - i  # marks "nothing was executed"
                    return [st3]
                handles = dict(st.meta.get("handles") or {})
                if vals[0] not in handles:
                    h0 = hres.fields[0]
                    handles[vals[0]] = h0 if isinstance(h0, (BoxRef, Ref)) else BoxRef(h0)
                meta_upd["handles"] = handles
                handle = handles[vals[0]]
                fn = ex.auto.resolve({"@write": "<MemfsFile as Write>::write", "@flush": "<MemfsFile as Write>::flush",
                                      "@drop": "<MemfsFile as Drop>::drop"}[name])
                if fn is None:
                    raise Unsupported("MemfsFile::%s not found in the MIR dump" % name)
                st2 = ex.start(fn, [handle] + list(vals[1:]))
            else:
                st2 = ex.start(self.fn(name), [BoxRef(st.meta["memfs"])] + list(vals))
            st2.pc = list(st.pc)
            st2.meta = dict(st.meta)
            st2.meta.update(meta_upd)
            st2.meta["results"] = results
            st2.meta["i"] = i
            if i == len(calls) - 1:
                st2.meta["before"] = snapshot_store(ex, st, st.meta["inner"])
            return [st2]

        st0 = State()
        st0.done = True
        st0.meta = dict(i=-1, results=[], memfs=memfs, inner=inner)
        st0.pc = list(cons)
        ex.explore(st0, on_path)


def snapshot_store(ex, st, inner):
    """immutable copy of the observable store: cwd, entries (key, fields), files (key, bytes)"""
    iv = ex.deref(st, inner)
    ents = []
    for k, v in iv.fields[2].items:
        e = v.obj
        names = None
        if e.fields[11].variant == 1:
            names = [list(x) for x in M._obj(ex, st, e.fields[11].fields[0]).items]
        ents.append(dict(key=list(k), path=list(e.fields[0].chars), alt=list(e.fields[1].chars), rel=list(e.fields[2].chars),
                         dir=e.fields[3], file=e.fields[4], link=e.fields[5], mode=e.fields[6], uid=e.fields[7], gid=e.fields[8],
                         names=names))
    files = [dict(key=list(k), data=list(M._obj(ex, st, v.obj.fields[1]).items)) for k, v in iv.fields[3].items]
    return dict(cwd=list(iv.fields[0].chars), root=list(iv.fields[1].chars), entries=ents, files=files)


def find_key(ex, st, items, key):
    for it in items:
        if ex.decide(st, TP.path_eq_text(ex, st, it["key"], key)):
            return it
    return None


def store_wf(ex, st, s):
    """C03 invariants on a snapshot: list of (description, B)"""
    from .mirsym.values import bv_bin
    out = []
    out.append(("C03: cwd and root are absolute", b_and(TP.is_ch(s["cwd"][0], TP.SLASH) if s["cwd"] else B(False),
                                                        TP.is_ch(s["root"][0], TP.SLASH) if s["root"] else B(False))))
    rootent = find_key(ex, st, s["entries"], s["root"]) if s["root"] else None
    out.append(("C03: the root exists and is a real directory", b_and(rootent["dir"], b_not(rootent["link"])) if rootent is not None else B(False)))
    for e in s["entries"]:
        out.append(("C03: every entry reports the path it is stored under", TP.path_eq_text(ex, st, e["path"], e["key"])))
        toks = TP.tokenize(ex, st, e["key"])
        if len(toks) == 1 and toks[0][0].kind == ROOT:
            continue
        parent = TP.parent_text(ex, st, e["key"])
        if parent is None:
            out.append(("C03: a non-root entry has a parent path", B(False)))
            continue
        pe = find_key(ex, st, s["entries"], parent)
        if pe is None:
            out.append(("C03: every existing path other than the root has an existing parent", B(False)))
            continue
        out.append(("C03: the parent of an entry is a real directory", b_and(pe["dir"], b_not(pe["link"]))))
        base = toks[-1][0].text
        listed = pe["names"] is not None and any(len(n) == len(base) and ex.decide(st, M.chars_eq(n, base)) for n in pe["names"])
        out.append(("C03: the parent directory lists the entry", B(bool(listed))))
    for e in s["entries"]:
        if e["names"] is None:
            continue
        for n in e["names"]:
            buf = TP.PathBufT(e["key"])
            TP.push_text(ex, st, buf, n)
            out.append(("C03: every name a directory lists exists", B(find_key(ex, st, s["entries"], buf.chars) is not None)))
        # no duplicates in a listing
        for i in range(len(e["names"])):
            for j in range(i + 1, len(e["names"])):
                a, b = e["names"][i], e["names"][j]
                if len(a) == len(b):
                    out.append(("C03: a directory lists a name once", b_not(M.chars_eq(a, b)) if a else B(False)))
    for e in s["entries"]:
        is_reg = b_and(e["file"], b_not(e["link"]))
        has = find_key(ex, st, s["files"], e["key"]) is not None
        if ex.decide(st, is_reg):
            out.append(("C03: every regular file has byte content", B(has)))
        else:
            out.append(("C03: only regular non-link files have byte content", B(not has)))
    for f in s["files"]:
        out.append(("C03: no dangling file data", B(find_key(ex, st, s["entries"], f["key"]) is not None)))
    # keys are unique
    for i in range(len(s["entries"])):
        for j in range(i + 1, len(s["entries"])):
            out.append(("C03: no path is stored twice", b_not(TP.path_eq_text(ex, st, s["entries"][i]["key"], s["entries"][j]["key"]))))
    return out


def store_same(ex, st, a, b):
    """B: the two snapshots denote the same observable tree"""
    from .mirsym.values import bv_bin, b_eq
    if len(a["entries"]) != len(b["entries"]) or len(a["files"]) != len(b["files"]):
        return B(False)
    conj = [TP.path_eq_text(ex, st, a["cwd"], b["cwd"])]
    for e in a["entries"]:
        o = find_key(ex, st, b["entries"], e["key"])
        if o is None:
            return B(False)
        conj += [b_eq(e["dir"], o["dir"]), b_eq(e["file"], o["file"]), b_eq(e["link"], o["link"]), bv_bin("Eq", e["mode"], o["mode"]),
                 bv_bin("Eq", e["uid"], o["uid"]), bv_bin("Eq", e["gid"], o["gid"]), TP.path_eq_text(ex, st, e["alt"], o["alt"])]
        if (e["names"] is None) != (o["names"] is None):
            return B(False)
        if e["names"] is not None:
            if len(e["names"]) != len(o["names"]):
                return B(False)
            for n in e["names"]:
                if not any(len(n) == len(m) and ex.decide(st, M.chars_eq(n, m) if n else B(True)) for m in o["names"]):
                    return B(False)
    for f in a["files"]:
        o = find_key(ex, st, b["files"], f["key"])
        if o is None or len(o["data"]) != len(f["data"]):
            return B(False)
        conj += [bv_bin("Eq", x, y) for x, y in zip(f["data"], o["data"])]
    return b_and(*conj)


TREE1 = {"/": ("d", ["a", "b"]), "/a": ("d", ["b"]), "/a/b": ("f", "x"), "/b": ("f", "yz")}
TREE2 = {"/": ("d", ["a", "b"]), "/a": ("d", ["a", "b"]), "/a/a": ("d", ["a"]), "/a/a/a": ("d", []), "/a/b": ("f", "x"), "/b": ("f", "yz")}
# a tree with distinguishable modes and a link to a file (for copy / move)
TREE3 = {"/": ("d", ["a", "b"]), "/a": ("d", ["a", "b"], 0o40750), "/a/a": ("l", "/b", "f", "../b"), "/a/b": ("f", "x", 0o100600), "/b": ("f", "yz")}
TREE4 = dict(TREE3, **{"/": ("d", ["a", "b", "ab"]), "/ab": ("l", "/a/b", "f", "a/b")})  # + a link in the root that points into /a
TREE0 = {"/": ("d", [])}  # a fresh filesystem (Memfs::new())
# + a nested directory whose mode differs from its parent's, holding a file
TREE5 = dict(TREE3, **{"/a": ("d", ["a", "b", "ab"], 0o40750), "/a/ab": ("d", ["b"], 0o40700), "/a/ab/b": ("f", "q", 0o100640)})
MEM_ALPHA = "/ab."

# method -> (argument kinds, may it report failure and must then leave the tree untouched?)
MEM_OPS = {
    "mkfile": (["path"], True), "mkdir_p": (["path"], True), "mkdir_m": (["path", "mode"], True),
    "write_all": (["path", "data"], True), "append_all": (["path", "data"], True), "remove": (["path"], True),
    "remove_all": (["path"], False), "symlink": (["path2", "path2"], True), "set_cwd": (["path"], True),
    "move_p": (["path2", "path2"], True), "exists": (["path"], False), "is_dir": (["path"], False),
    "is_file": (["path"], False), "is_symlink": (["path"], False), "read_all": (["path"], False), "mode": (["path"], False),
    "readlink": (["path"], False), "readlink_abs": (["path"], False), "chmod": (["path", "mode"], False),
    "copy": (["path2", "path2"], False), "copy_b": (["path2", "path2"], False),
    "chmod_b": (["path"], False), "chown_b": (["path"], False),
    "write": (["path"], False), "append": (["path"], False), "read": (["path"], False),
}


MEM_ALPHA_OVERRIDE = [None]


def mem_args(solver, tag, kinds, n, n2):
    vals, cons, groups = [], [], {}
    MEM_ALPHA = MEM_ALPHA_OVERRIDE[0] or globals()["MEM_ALPHA"]
    for i, k in enumerate(kinds):
        if k in ("path", "path2"):
            L = n if k == "path" else n2
            c, _ = sym_text(solver, "%s_p%d" % (tag, i), L)
            cons += ["(or %s)" % " ".join("(= %s (_ bv%d 32))" % (x.v, ord(a)) for a in MEM_ALPHA) for x in c]
            vals.append(BoxRef(M.SStr(c)))
            groups["arg%d" % i] = c
        elif k == "data":
            c, cc = sym_text(solver, "%s_d%d" % (tag, i), 1, ascii_only=True)
            cons += cc + ["(not (= %s #x00000000))" % c[0].v]
            vals.append(BoxRef(M.SStr(c)))
            groups["data%d" % i] = c
        elif k == "mode":
            nm = "%s_m%d" % (tag, i)
            solver.declare(nm, "(_ BitVec 32)")
            cons.append("(bvule %s #x000001ff)" % nm)
            vals.append(BV(32, False, nm))
    return vals, cons, groups


def run_memfs_single(ctx, prop, ops, nmax, n2max, cwds=("/", "/a"), tag="mem_single", tree=None, pfx=None, pre=None, npre=2, alpha=None):
    """pre: optional list of operations one of which is executed first (with its own symbolic arguments of 1..=npre chars):
    the obligations are those of the last call, from the state the first call leaves behind (two-call histories)"""
    t0 = time.time()
    run = MemRun(ctx, tag)
    ex, ob = run.ex, run.ob
    unit = dict(status="pass", failures=[])
    tree = tree or TREE1
    MEM_ALPHA_OVERRIDE[0] = alpha
    import itertools
    pre_variants = [None]
    if pre:
        pre_variants = []
        for pop in pre:
            pk = MEM_OPS[pop][0]
            ptwo = pk.count("path2") == 2
            for pl in ([(a, b) for a in range(1, npre + 1) for b in range(1, npre + 1)] if ptwo else [(n, 0) for n in range(1, npre + 1)]):
                pre_variants.append((pop, pl))
    for op, prev in itertools.product(ops, pre_variants):
        base = op.split("/")[0]
        kinds, atomic = MEM_OPS[base]
        two = kinds.count("path2") == 2
        shapes = [(a, b) for a in range(1, n2max + 1) for b in range(1, n2max + 1)] if two else [(n, 0) for n in range(1, nmax + 1)]
        if two and (tag.endswith("two3") or (n2max == 3 and tag.startswith("c09_"))):
            shapes = [(a, b) for a, b in shapes if max(a, b) == 3]
        for cwd in cwds:
            for (la, lb) in shapes:
                vals, cons, groups = [], [], {}
                tagx = "%s_%s_%s_%d_%d" % (tag, op, cwd.replace("/", "r"), la, lb)
                pre_calls, pre_groups, pre_cons, pre_desc = [], {}, [], None
                if prev is not None:
                    pop, (pa_, pb_) = prev
                    tagx += "_%s_%d_%d" % (pop, pa_, pb_)
                    pk = MEM_OPS[pop][0]
                    if pk.count("path2") == 2:
                        q1, d1, h1 = mem_args(run.solver, tagx + "pa", ["path2"], pa_, pa_)
                        q2, d2, h2 = mem_args(run.solver, tagx + "pb", ["path2"], pb_, pb_)
                        pvals, pre_cons, pre_groups = q1 + q2, d1 + d2, {"pre_arg0": h1["arg0"], "pre_arg1": h2["arg0"]}
                    else:
                        pvals, pre_cons, hg = mem_args(run.solver, tagx + "p", pk, pa_, pa_)
                        pre_groups = {"pre_" + k: v for k, v in hg.items()}
                    pre_calls, pre_desc = [(pop, pvals)], pop
                if two:
                    v1, c1, g1 = mem_args(run.solver, tagx + "a", ["path2"], la, la)
                    v2, c2, g2 = mem_args(run.solver, tagx + "b", ["path2"], lb, lb)
                    vals, cons = v1 + v2, c1 + c2
                    groups = {"arg0": g1["arg0"], "arg1": g2["arg0"]}
                else:
                    vals, cons, groups = mem_args(run.solver, tagx, kinds, la, la)
                cons = cons + pre_cons
                groups = dict(groups, **pre_groups)
                calls, copts = pre_calls + [(op, vals)], None
                if base in ("chmod_b", "chown_b"):
                    what, rec, fol = op.split("/")[1:]
                    B_ = "Chmod" if base == "chmod_b" else "Chown"
                    calls, copts = pre_calls + [(base, vals)], dict(kind=base, what=what, recursive=rec == "1", follow=fol == "1")
                    nvals = {"all": 1, "dirs": 1, "files": 1, "both": 2, "ro": 0, "sec": 0, "owner": 2, "uid": 1, "gid": 1}[what]
                    syms = []
                    for k in range(nvals):
                        nm = "%s_v%d" % (tagx, k)
                        run.solver.declare(nm, "(_ BitVec 32)")
                        if base == "chmod_b":
                            cons = cons + ["(bvule %s #x000001ff)" % nm]
                        syms.append(BV(32, False, nm))
                        groups = dict(groups, **{"val%d" % k: [syms[-1]]})
                    copts["vals"] = syms
                    if what == "both":
                        calls.append(("@@Chmod::dirs", [len(calls) - 1, syms[0]]))
                        calls.append(("@@Chmod::files", [len(calls) - 1, syms[1]]))
                    elif what == "ro":
                        calls.append(("@@Chmod::readonly", [len(calls) - 1]))
                    elif what == "sec":
                        calls.append(("@@Chmod::secure", [len(calls) - 1]))
                    else:
                        calls.append(("@@%s::%s" % (B_, what), [len(calls) - 1] + syms))
                    if rec == "0":
                        calls.append(("@@Chmod::no_recurse", [len(calls) - 1]) if base == "chmod_b" else ("@@Chown::recurse", [len(calls) - 1, B(False)]))
                    if fol == "1":
                        calls.append(("@@%s::follow" % B_, [len(calls) - 1]))
                    calls.append(("@@%s::exec&" % B_, [len(calls) - 1]))
                if base == "copy_b":
                    sel, fol = op.split("/")[1:]
                    calls, copts = pre_calls + [("copy_b", vals)], dict(sel=sel, follow=fol == "1", mode=None)
                    if sel != "none":
                        mv, mc, _ = mem_args(run.solver, tagx + "m", ["mode"], 0, 0)
                        cons = cons + mc
                        copts["mode"] = mv[0]
                        groups = dict(groups, mode=[mv[0]])
                        calls.append(("@@Copier::chmod_%s" % sel, [len(calls) - 1, mv[0]]))
                    if fol == "1":
                        calls.append(("@@Copier::follow", [len(calls) - 1, B(True)]))
                    calls.append(("@@Copier::exec&", [len(calls) - 1]))

                def on_done(st, results, inner, i, op=op, groups=groups, cwd=cwd, atomic=atomic, base=base, copts=copts, npre_=len(pre_calls), pre_desc=pre_desc):
                    cf = lambda extra: text_model(ex, st, groups, extra)
                    if npre_ and any(r[0] in ("panic", "bound") for r in results[:npre_]):
                        return  # the first call alone is the subject of the single-call units
                    cwd0 = cwd
                    cwd_chars = T_(cwd) if not npre_ else list(st.meta["before"]["cwd"])
                    cwd = cwd if not npre_ else "%s, after %s" % (cwd, pre_desc)
                    last = results[-1]
                    for r in results[npre_:]:
                        if r[0] in ("panic", "bound") or (r[0] == "ret" and isinstance(r[1], Adt) and r[1].ty == "Result" and r[1].variant == 1):
                            last = r  # the first step that fails decides the outcome of the whole builder chain
                            break
                    if last[0] in ("panic", "bound"):
                        ob.total += 1
                        ob.failures.append(dict(kind="panic" if last[0] == "panic" else "bound", where="Memfs::" + op, op=op, cwd=cwd0, pre=pre_desc,
                                                cex=cf([]), desc="C12: Memfs::%s panics/loops: %s" % (op, last[1])))
                        return
                    after = snapshot_store(ex, st, inner)
                    for desc, f in store_wf(ex, st, after):
                        ob.prove(ex, st, desc + " (after %s, cwd %s)" % (op, cwd), f, cf) or ob.failures[-1].update(op=op, cwd=cwd0, pre=pre_desc, where="Memfs::" + op)
                    rv = last[1]
                    failed = isinstance(rv, Adt) and rv.ty == "Result" and rv.variant == 1
                    rop = "copy" if base == "copy_b" else base[:-2] if base in ("chmod_b", "chown_b") else op
                    if rop in REF_OPS:
                        # C01, first sentence, for one call: result and resulting tree equal the reference filesystem
                        op = rop if base not in ("copy_b", "chmod_b", "chown_b") else op
                        pa = abs_oracle(ex, st, groups["arg0"], cwd_chars, run.tenv)
                        pb = None
                        if rop in ("symlink", "move_p", "copy") and pa[0] == "ok":
                            a1 = groups["arg1"]
                            if op == "symlink" and not ex.decide(st, TP.is_ch(a1[0], TP.SLASH)):
                                a1 = list(TP.parent_text(ex, st, pa[1]) or T_("/")) + T_("/") + list(a1)
                            pb = abs_oracle(ex, st, a1, cwd_chars, run.tenv)
                        if pb is not None and pb[0] != "ok":
                            if pb[0] == "err":
                                ob.prove(ex, st, "C01: %s with a second path that does not resolve (%s) fails (cwd %s)" % (op, pb[1], cwd), B(failed), cf) or \
                                    ob.failures[-1].update(op=op, cwd=cwd0, pre=pre_desc, where="Memfs::" + op)
                        elif pa[0] == "err":
                            ob.prove(ex, st, "C01: %s on a path that does not resolve (%s) fails (cwd %s)" % (op, pa[1], cwd), B(failed), cf) or \
                                ob.failures[-1].update(op=op, cwd=cwd0, pre=pre_desc, where="Memfs::" + op)
                        elif pa[0] == "ok":
                            ref = ref_from_snapshot(ex, st, st.meta["before"])
                            out, rpath = ref_apply(ex, st, ref, rop, [pa[1]] + ([pb[1]] if pb else []), groups.get("data1"), copts)
                            if out != "skip":
                                ob.prove(ex, st, "C01: %s succeeds/fails as the reference filesystem does (cwd %s)" % (op, cwd),
                                         B(failed == (out == "err")), cf) or ob.failures[-1].update(op=op, cwd=cwd0, pre=pre_desc, where="Memfs::" + op)
                                if out == "err" and failed and rpath is not None:
                                    ev = rv.fields[0] if isinstance(rv, Adt) and rv.fields else None
                                    got_kind = ev.vname if isinstance(ev, Adt) and ev.ty == "Error" else None
                                    ob.prove(ex, st, "C01: %s fails with the documented error kind %s (cwd %s)" % (op, rpath, cwd), B(got_kind == rpath), cf) or \
                                        ob.failures[-1].update(op=op, cwd=cwd0, pre=pre_desc, where="Memfs::" + op, got_kind=got_kind)
                                if out == "ok" and not failed:
                                    def cf_ref(extra, ref=ref):
                                        g2 = dict(groups)
                                        for k, n in enumerate(ref["nodes"]):
                                            g2["_k%d" % k] = n["key"]
                                            g2["_m%d" % k] = [n["mode"]]
                                            g2["_u%d" % k] = [n["uid"]]
                                            g2["_g%d" % k] = [n["gid"]]
                                            if n["kind"] == "f":
                                                g2["_c%d" % k] = n["content"]
                                            if n["kind"] == "l":
                                                g2["_a%d" % k] = n["alt"]
                                        g2["_cwd"] = ref["cwd"]
                                        m = text_model(ex, st, g2, extra)
                                        if not m:
                                            return m
                                        lines = []
                                        for k, n in enumerate(ref["nodes"]):
                                            if m["_k%d" % k] == "/":
                                                continue
                                            kind = "dir" if n["kind"] == "d" else "fileSome(%s)" % rs_debug(m["_c%d" % k]) if n["kind"] == "f" else "link->Some(%s)" % rs_debug(m["_a%d" % k])
                                            lines.append((m["_k%d" % k], "%s %s %o Some((%d, %d))" % (rs_debug(m["_k%d" % k]), kind, ord(m["_m%d" % k]),
                                                                                                        ord(m["_u%d" % k]), ord(m["_g%d" % k]))))
                                        out_ = {k: v for k, v in m.items() if not k.startswith("_")}
                                        for kk in ("mode", "val0", "val1"):
                                            if kk in out_:
                                                out_[kk] = ord(out_[kk])
                                        out_["expect_dump"] = "".join(l + "\n" for _, l in sorted(lines)) + "cwd=Some(%s)" % rs_debug(m["_cwd"])
                                        return out_
                                    label, formula = "", ref_matches(ex, st, ref, after)
                                    if copts and ref.get("followed_link"):
                                        label = " [copy following a link inside the source tree]"
                                    for lb in sorted(set(ref.get("labels", []))):
                                        label += " " + lb
                                    if copts and copts.get("mode") is not None and ref.get("mode_matters"):
                                        from .mirsym.values import bv_bin as _bvb
                                        zero = _bvb("Eq", copts["mode"], BV(32, False, 0))
                                        ob.prove(ex, st, "C01: the tree after %s equals the reference filesystem's (cwd %s) [requested mode 0]%s" % (op, cwd, label),
                                                 b_or(b_not(zero), formula), cf_ref) or ob.failures[-1].update(op=op, cwd=cwd0, pre=pre_desc, where="Memfs::" + op)
                                        formula = b_or(zero, formula)
                                    ob.prove(ex, st, "C01: the tree after %s equals the reference filesystem's (cwd %s)%s" % (op, cwd, label),
                                             formula, cf_ref) or ob.failures[-1].update(op=op, cwd=cwd0, pre=pre_desc, where="Memfs::" + op)
                                    if rpath is not None and isinstance(rv, Adt) and rv.variant == 0 and isinstance(rv.fields[0], TP.PathBufT):
                                        ob.prove(ex, st, "C01: %s returns the absolute path it acted on (cwd %s)" % (op, cwd),
                                                 text_eq(rv.fields[0].chars, rpath), cf) or ob.failures[-1].update(op=op, cwd=cwd0, pre=pre_desc, where="Memfs::" + op)
                    if atomic and failed:
                        ob.prove(ex, st, "C01: a failed %s leaves the tree exactly as it was (cwd %s)" % (op, cwd),
                                 store_same(ex, st, st.meta["before"], after), cf) or ob.failures[-1].update(op=op, cwd=cwd0, pre=pre_desc, where="Memfs::" + op)
                    if len(ob.samples) < 5:
                        m = cf([])
                        if m:
                            ob.samples.append(dict(op=op, cwd=cwd0, pre=pre_desc, args=m, failed=failed))

                run.explore(tree, cwd, calls, cons, on_done)
    seen = set()
    for f in ob.failures:
        if pfx:
            f["desc"] = re.sub(r"^C\d\d:", pfx + ":", f["desc"]) if f["kind"] != "panic" else f["desc"]
        if f["kind"] == "bound" or f["cex"] is None:
            unit["status"], unit["why"] = "inconclusive", f["desc"]
            continue
        f["tree"] = tree
        key = (f["op"], re.sub(r" \(after.*", "", f["desc"]))
        if key in seen or len(seen) >= 6:
            continue
        seen.add(key)
        src = mem_replay_src(f)
        r = native_test(src, ctx.logdir, "%s_%d" % (tag, len(seen)))
        reproduced = r["ran"] and r["failed"] > 0
        rec = dict(kind=f["kind"], desc='"%s" args=%r' % (f["desc"], f["cex"]), where=f.get("where", ""), reproduced=reproduced,
                   replay_outcome=r["out"][-500:])
        if reproduced:
            rec["replay"] = save_replay(prop, tag, src, f["desc"], dict(failed=r["failed"]))
        unit["failures"].append(rec)
        unit["status"] = "violation"
    return finish(unit, ex, run.solver, ob, t0, dict(models_used="Memfs executed from MIR (rivia code auto-inlined); HashMap/HashSet/Arc/RwLock/Box<dyn> models; text-level paths"))


MEM_REPLAY_PRELUDE = '''use rivia::prelude::*;

fn dump(v: &Memfs) -> String {
    let mut out = String::new();
    let mut paths = v.all_paths("/").unwrap_or_default();
    paths.sort();
    for p in paths {
        let kind = if v.is_symlink(&p) { format!("link->{:?}", v.readlink_abs(&p).ok()) } else if v.is_dir(&p) { "dir".to_string() } else { format!("file{:?}", v.read_all(&p).ok()) };
        out += &format!("{:?} {} {:o} {:?}\\n", p, kind, v.mode(&p).unwrap_or(0), v.owner(&p).ok());
    }
    out + &format!("cwd={:?}\n{}", v.cwd().ok(), v)
}

// the complete key sets of the entry map and of the content map, from the Display rendering (lists orphans too)
fn keys(v: &Memfs) -> (Vec<std::path::PathBuf>, Vec<std::path::PathBuf>) {
    let text = format!("{}", v);
    let (mut fs, mut files, mut sect) = (vec![], vec![], 0);
    for l in text.lines() {
        if l == "[fs]:" { sect = 1; continue; }
        if l == "[files]:" { sect = 2; continue; }
        if l.is_empty() { continue; }
        if sect == 1 { fs.push(std::path::PathBuf::from(l.split(" -> ").next().unwrap())); }
        if sect == 2 { files.push(std::path::PathBuf::from(l)); }
    }
    (fs, files)
}

// every stored entry has an existing real-directory parent that lists it; listings only name existing paths;
// exactly the regular non-link files have byte content
fn well_formed(v: &Memfs) -> Result<(), String> {
    let (fs, files) = keys(v);
    let mut all = v.all_paths("/").map_err(|e| e.to_string())?;
    for k in &fs { if k.parent().is_some() && !all.contains(k) { all.push(k.clone()); } }
    for p in &all {
        let parent = p.parent().ok_or("no parent")?.to_path_buf();
        if !v.is_dir(&parent) || v.is_symlink(&parent) { return Err(format!("parent of {:?} is not a real directory", p)); }
        if !v.paths(&parent).map_err(|e| e.to_string())?.contains(p) { return Err(format!("{:?} is not listed by its parent", p)); }
        if !v.exists(p) { return Err(format!("{:?} is listed but does not exist", p)); }
        if v.is_file(p) && !v.is_symlink(p) && !files.contains(p) { return Err(format!("regular file {:?} has no content", p)); }
    }
    for f in &files {
        if !fs.contains(f) || !v.is_file(f) || v.is_symlink(f) { return Err(format!("byte content stored for {:?}, which is not a regular file", f)); }
    }
    if !v.cwd().map_err(|e| e.to_string())?.is_absolute() { return Err("cwd is not absolute".into()); }
    if !v.is_dir("/") { return Err("the root does not exist / is not a directory".into()); }
    Ok(())
}

fn fixture() -> Memfs {
    let v = Memfs::new();
    v.mkdir_p("/a").unwrap();
    v.write_all("/a/b", "x").unwrap();
    v.write_all("/b", "yz").unwrap();
    v
}

fn fixture3() -> Memfs {
    let v = Memfs::new();
    v.mkdir_m("/a", 0o750).unwrap();
    v.write_all("/a/b", "x").unwrap();
    v.chmod("/a/b", 0o600).unwrap();
    v.write_all("/b", "yz").unwrap();
    v.symlink("/a/a", "/b").unwrap();
    v
}

fn fixture5() -> Memfs {
    let v = fixture3();
    v.mkdir_m("/a/ab", 0o700).unwrap();
    v.write_all("/a/ab/b", "q").unwrap();
    v.chmod("/a/ab/b", 0o640).unwrap();
    v
}

fn fixture4() -> Memfs {
    let v = fixture3();
    v.symlink("/ab", "/a/b").unwrap();
    v
}

// A plain reference tree filesystem written from the VirtualFileSystem documentation (std only, no rivia code).
// Paths without '~' and '$' only.
#[derive(Clone, PartialEq, Debug)]
enum N { D, F(String), L(String) }
#[derive(Clone)]
struct RefFs { nodes: std::collections::BTreeMap<String, N>, cwd: String }
impl RefFs {
    fn fixture(cwd: &str) -> RefFs {
        let mut nodes = std::collections::BTreeMap::new();
        nodes.insert("/".to_string(), N::D);
        nodes.insert("/a".to_string(), N::D);
        nodes.insert("/a/b".to_string(), N::F("x".to_string()));
        nodes.insert("/b".to_string(), N::F("yz".to_string()));
        RefFs { nodes, cwd: cwd.to_string() }
    }
    fn resolve_from(base: &str, p: &str) -> Option<String> {
        if p.is_empty() { return None; }
        let full = if p.starts_with('/') { p.to_string() } else { format!("{}/{}", base, p) };
        let mut st: Vec<&str> = vec![];
        for c in full.split('/') {
            match c { "" | "." => {}, ".." => { st.pop(); }, x => st.push(x) }
        }
        Some(format!("/{}", st.join("/")))
    }
    fn resolve(&self, p: &str) -> Option<String> { Self::resolve_from(&self.cwd, p) }
    fn parent(p: &str) -> String { match p.rfind('/') { Some(0) | None => "/".to_string(), Some(i) => p[..i].to_string() } }
    fn base(p: &str) -> String { p[p.rfind('/').unwrap() + 1..].to_string() }
    fn parent_is_dir(&self, p: &str) -> bool { self.nodes.get(&Self::parent(p)) == Some(&N::D) }
    fn has_children(&self, p: &str) -> bool { self.nodes.keys().any(|k| k != p && Self::parent(k) == p && k != "/") }
    fn under(k: &str, p: &str) -> bool { k == p || k.starts_with(&format!("{}/", p.trim_end_matches('/'))) }
    // Ok(true) = succeeded, Ok(false) = failed, Err = outside what the documentation determines
    fn apply(&mut self, op: &str, path: &str, arg2: &str) -> Result<bool, ()> {
        let p = match self.resolve(path) { Some(p) => p, None => return Ok(false) };
        let node = self.nodes.get(&p).cloned();
        match op {
            "mkfile" | "write_all" | "append_all" => {
                match node {
                    Some(N::D) => if p == "/" { Err(()) } else { Ok(false) },
                    Some(N::L(_)) => Err(()),
                    Some(N::F(old)) => {
                        if op == "write_all" { self.nodes.insert(p, N::F(arg2.to_string())); }
                        else if op == "append_all" { self.nodes.insert(p, N::F(old + arg2)); }
                        Ok(true)
                    }
                    None => {
                        if !self.parent_is_dir(&p) { return Ok(false); }
                        self.nodes.insert(p, N::F(if op == "mkfile" { String::new() } else { arg2.to_string() }));
                        Ok(true)
                    }
                }
            }
            "mkdir_p" => {
                let mut cur = String::new();
                let mut made = vec![];
                for c in p.split('/').filter(|c| !c.is_empty()) {
                    cur = format!("{}/{}", cur, c);
                    match self.nodes.get(&cur) { None => made.push(cur.clone()), Some(N::D) => {}, Some(N::L(_)) => return Err(()), Some(_) => return Ok(false) }
                }
                for m in made { self.nodes.insert(m, N::D); }
                Ok(true)
            }
            "remove" => {
                if node.is_none() { return Ok(true); }
                if p == "/" { return Err(()); }
                if node == Some(N::D) && self.has_children(&p) { return Ok(false); }
                self.nodes.remove(&p);
                Ok(true)
            }
            "remove_all" => {
                if p == "/" { return Err(()); }
                self.nodes.retain(|k, _| !Self::under(k, &p));
                Ok(true)
            }
            "set_cwd" => { if node.is_none() { return Ok(false); } self.cwd = p; Ok(true) }
            "symlink" => {
                if p == "/" || node.is_some() { return Err(()); }
                // a relative target is relative to the link's own directory
                let t = match Self::resolve_from(&Self::parent(&p), arg2) { Some(t) => t, None => return Ok(false) };
                if !self.parent_is_dir(&p) { return Ok(false); }
                self.nodes.insert(p, N::L(t));
                Ok(true)
            }
            "copy" => {
                let dst = match self.resolve(arg2) { Some(d) => d, None => return Ok(false) };
                if p == dst { return if node.is_some() { Ok(true) } else { Err(()) }; }
                if node.is_none() { return Ok(false); }
                if p == "/" { return Err(()); }
                let fin = if self.nodes.get(&dst) == Some(&N::D) { format!("{}/{}", dst.trim_end_matches('/'), Self::base(&p)) } else { dst };
                if Self::under(&fin, &p) { return Err(()); }
                let mut cur = String::new();
                let mut made = vec![];
                let comps: Vec<&str> = fin.split('/').filter(|c| !c.is_empty()).collect();
                for c in &comps[..comps.len() - 1] {
                    cur = format!("{}/{}", cur, c);
                    match self.nodes.get(&cur) { None => made.push(cur.clone()), Some(N::D) => {}, Some(_) => return Ok(false) }
                }
                let copied: Vec<(String, N)> = self.nodes.iter().filter(|(k, _)| Self::under(k, &p)).map(|(k, n)| (format!("{}{}", fin, &k[p.len()..]), n.clone())).collect();
                for (k, n) in &copied {
                    match (self.nodes.get(k), n) {
                        (None, _) | (Some(N::F(_)), N::F(_)) | (Some(N::D), N::D) => {}
                        _ => return Err(()),
                    }
                }
                for m in made { self.nodes.insert(m, N::D); }
                for (k, n) in copied { self.nodes.insert(k, n); }
                Ok(true)
            }
            "move_p" => {
                let dst = match self.resolve(arg2) { Some(d) => d, None => return Ok(false) };
                if node.is_none() { return Ok(false); }
                if p == "/" { return Err(()); }
                let fin = if self.nodes.get(&dst) == Some(&N::D) { format!("{}/{}", dst.trim_end_matches('/'), Self::base(&p)) } else { dst };
                if Self::under(&fin, &p) { return Ok(false); }
                if !self.parent_is_dir(&fin) { return Ok(false); }
                match self.nodes.get(&fin) { Some(N::D) | Some(N::L(_)) => return Err(()), _ => { self.nodes.remove(&fin); } }
                let moved: Vec<(String, N)> = self.nodes.iter().filter(|(k, _)| Self::under(k, &p)).map(|(k, n)| (k.clone(), n.clone())).collect();
                for (k, n) in moved {
                    self.nodes.remove(&k);
                    self.nodes.insert(format!("{}{}", fin, &k[p.len()..]), n);
                }
                Ok(true)
            }
            _ => Err(()),
        }
    }
    fn dump(&self) -> String {
        let mut out = String::new();
        for (k, n) in &self.nodes {
            if k == "/" { continue; }
            let (kind, mode) = match n {
                N::D => ("dir".to_string(), 0o40755),
                N::F(d) => (format!("file{:?}", Some(d)), 0o100644),
                N::L(t) => (format!("link->{:?}", Some(std::path::PathBuf::from(t))), 0o120777),
            };
            out += &format!("{:?} {} {:o} {:?}\\n", std::path::PathBuf::from(k), kind, mode, Some((1000u32, 1000u32)));
        }
        out + &format!("cwd={:?}", Some(std::path::PathBuf::from(&self.cwd)))
    }
}
'''


REF_OPS = ("mkfile", "mkdir_p", "write_all", "append_all", "remove", "remove_all", "set_cwd", "symlink", "move_p", "copy", "chmod", "chown")


def mem_replay_src(f):
    op, cwd, a = f["op"], f["cwd"], f["cex"]
    kinds = MEM_OPS[op.split("/")[0]][0]
    args = []
    for i, k in enumerate(kinds):
        if k in ("path", "path2"):
            args.append(rs_str(a["arg%d" % i]))
        elif k == "data":
            args.append(rs_str(a["data%d" % i]))
        else:
            args.append("0o644")
    call = "v.%s(%s)" % (op, ", ".join(args))
    if op in ("write", "append", "read"):
        call += ".map(|_| ())"  # the handle is dropped right away; Box<dyn Write> has no Debug
    tree = f.get("tree") or TREE1
    fixture_call = "fixture()" if tree is TREE1 else "fixture4()" if tree is TREE4 else "Memfs::new()" if tree is TREE0 else "fixture5()" if tree is TREE5 else "fixture3()"
    pre_line, pre_ref = "", ""
    if f.get("pre"):
        pk = MEM_OPS[f["pre"]][0]
        pargs = [rs_str(a.get("pre_arg%d" % i, a.get("pre_data%d" % i, ""))) if k != "mode" else "0o644" for i, k in enumerate(pk)]
        pre_line = "    let _ = v.%s(%s);\n" % (f["pre"], ", ".join(pargs))
        pre_ref = "    let pre_known = r.apply(%s, %s, %s).is_ok();\n" % (rs_str(f["pre"]), pargs[0], pargs[1] if len(pargs) > 1 else '""')
    refcheck = ""
    if op.startswith(("chmod_b/", "chown_b/")):
        base, what, rec, fol = op.split("/")
        iv = lambda k: (lambda x: ord(x) if isinstance(x, str) and len(x) == 1 else int(x or 0))(a.get("val%d" % k, 0))
        if base == "chmod_b":
            sel = {"all": ".all(0o%o)" % iv(0), "dirs": ".dirs(0o%o)" % iv(0), "files": ".files(0o%o)" % iv(0), "both": ".dirs(0o%o).files(0o%o)" % (iv(0), iv(1)),
                   "ro": ".readonly()", "sec": ".secure()"}[what]
            chain = sel + (".no_recurse()" if rec == "0" else "") + (".follow()" if fol == "1" else "")
        else:
            sel = {"owner": ".owner(%d, %d)" % (iv(0), iv(1)), "uid": ".uid(%d)" % iv(0), "gid": ".gid(%d)" % iv(0)}[what]
            chain = sel + (".recurse(false)" if rec == "0" else "") + (".follow()" if fol == "1" else "")
        call = "v.%s(%s).and_then(|c| c%s.exec())" % (base, rs_str(a["arg0"]), chain)
        op = base
    if op.startswith("copy_b/"):
        sel, fol = op.split("/")[1:]
        mo = a.get("mode", 0)
        mo = ord(mo) if isinstance(mo, str) and len(mo) == 1 else int(mo or 0)
        chain = (".chmod_%s(0o%o)" % (sel, mo) if sel != "none" else "") + (".follow(true)" if fol == "1" else "")
        call = "v.copy_b(%s, %s).and_then(|c| c%s.exec())" % (rs_str(a["arg0"]), rs_str(a["arg1"]), chain)
        op = "copy_b"
    if a.get("expect_dump") is not None:
        refcheck = '''    assert!(!failed, "C01: %s fails where the reference filesystem succeeds");
    assert_eq!(dump(&v).split("\\n[cwd]").next().unwrap(), %s, "C01: the tree after %s differs from the reference filesystem's");
''' % (op, rs_str(a["expect_dump"]), op)
    elif op in REF_OPS and tree in (TREE1, TREE0) and not any(c in a["arg0"] for c in "~$"):
        refcheck = '''    let mut r = RefFs::fixture(%s);
    FRESH_REF
    let pre_known = true;
PRE_REF    if let (true, Ok(ok)) = (pre_known, r.apply(%s, %s, %s)) {
        assert_eq!(!failed, ok, "C01: %s succeeds/fails differently from the reference filesystem");
        if ok {
            assert_eq!(dump(&v).split("\n[cwd]").next().unwrap(), r.dump(), "C01: the tree after %s differs from the reference filesystem's");
            let (fs, files) = keys(&v);
            assert_eq!(fs.len(), r.nodes.len(), "C01: stored entries differ from the reference filesystem's");
            assert_eq!(files.len(), r.nodes.values().filter(|n| matches!(n, N::F(_))).count(), "C01: stored file contents differ from the reference filesystem's");
        }
    }
''' % (rs_str(cwd), rs_str(op), rs_str(a["arg0"]), rs_str(a.get("data1", a.get("arg1", ""))), op, op)
    refcheck = refcheck.replace("PRE_REF", pre_ref).replace("FRESH_REF", 'r.nodes.retain(|k, _| k == "/");' if tree is TREE0 else "")
    mk = re.search(r"documented error kind (\w+)", f["desc"])
    if mk:
        camel = "".join(w.capitalize() for w in mk.group(1).split("_"))
        refcheck += '    assert!(!failed || r.contains("%s"), "C01: %s fails with {} instead of the documented %s", r);\n' % (camel, op, camel)
    return MEM_REPLAY_PRELUDE + '''
#[test]
fn replay_memfs_op() {
    // %s
    let v = std::sync::Arc::new(%s);
    v.set_cwd(%s).unwrap();
%s    let before = dump(&v);
    // run the call on its own thread: a call that never returns (deadlock) must fail the replay, not hang it
    let (tx, rx) = std::sync::mpsc::channel();
    let v2 = v.clone();
    std::thread::spawn(move || {
        let v = v2;
        let r = %s;
        let _ = tx.send(format!("{:?}", r));
    });
    let r = rx.recv_timeout(std::time::Duration::from_secs(10)).expect("C12: the call did not return within 10 s (deadlock) or panicked");
    let failed = r.starts_with("Err");
    if let Err(e) = well_formed(&v) {
        panic!("C03: tree not well formed after %s: {}\\n{}", e, dump(&v));
    }
    if failed && %s {
        assert_eq!(dump(&v), before, "C01: failed %s changed the tree");
    }
%s}
''' % (f["desc"], fixture_call, rs_str(cwd), pre_line, call, op, "true" if MEM_OPS[op][1] else "false", op, refcheck)


MEM_FUNCS = ["Memfs::{%s} and everything they call, executed from MIR (auto-inlined rivia code): _abs, _add, _mkdir_m, _symlink, MemfsGuard::*, "
             "MemfsEntry::*, MemfsEntryOpts::*, MemfsFile::{write,flush,sync,drop,clone,seek}, sys::{expand,clean,mash,dir,base,relative,...}"]


def _mk_mem_single(name, ops, nmax, n2max, tier):
    @job(name, ["C03", "C01", "C12"], tier, functions=[MEM_FUNCS[0] % ",".join(ops)],
         bounds="one call from the tree {/, /a, /a/b, /b} with cwd '/' and '/a': every path text of 1..=%d chars over {'/','a','b','.'} "
                "(two-path calls: 1..=%d chars each), data any 1 ASCII char, mode any value <= 0o777" % (nmax, n2max))
    def f(ctx, prop):
        return run_memfs_single(ctx, prop, ops, nmax, n2max, tag=name)
    return f


_mk_mem_single("c03_mem_create", ["mkfile", "mkdir_p", "mkdir_m"], 3, 2, "quick")
_mk_mem_single("c03_mem_write", ["write_all", "append_all", "set_cwd"], 3, 2, "quick")
_mk_mem_single("c03_mem_remove", ["remove", "remove_all"], 3, 2, "quick")
_mk_mem_single("c03_mem_symlink", ["symlink"], 3, 2, "quick")
_mk_mem_single("c03_mem_move", ["move_p"], 3, 2, "quick")
_mk_mem_single("c03_mem_copy", ["copy"], 3, 2, "quick")
_mk_mem_single("c03_mem_open", ["write", "append", "read"], 3, 2, "quick")  # opening a handle (also on paths that are refused)


@job("c03_mem_fresh", ["C03", "C01", "C12"], "quick", functions=[MEM_FUNCS[0] % "mkfile,mkdir_p,write_all,append_all,remove,remove_all,set_cwd,symlink,move_p,copy"],
     bounds="one call on a fresh filesystem (only '/', cwd '/'): every path text of 1..=3 chars over {'/','a','b','.'} (two-path calls 1..=2 each)")
def c03_mem_fresh(ctx, prop):
    return run_memfs_single(ctx, prop, ["mkfile", "mkdir_p", "write_all", "append_all", "remove", "remove_all", "set_cwd", "symlink", "move_p", "copy"], 3, 2,
                            cwds=("/",), tag="c03_mem_fresh", tree=TREE0)


def _mk_c09(name, ops, n2, tier, cwds=("/", "/a"), tree=None):
    @job(name, ["C09", "C12"], tier, functions=[MEM_FUNCS[0] % ",".join(sorted(set(o.split("/")[0] for o in ops))) +
                                                               "; Copier::{chmod_all,chmod_dirs,chmod_files,follow,exec}, Memfs::_copy and the Entries traversal it drives (real MIR)"],
         bounds="one call from the tree {/, /a (dir, 0750), /a/a -> /b (link), /a/b (file 'x', 0600), /b (file 'yz')%s} with cwd %s: every (src, dst) pair of texts of 1..=%d chars over "
                "{'/','a','b','.'}; Copier options %s with any mode <= 0o777" % (", /ab -> /a/b (link)" if tree is TREE4 else ", /a/ab (dir, 0700), /a/ab/b (file 'q', 0640)" if tree is TREE5 else "", " and ".join("'%s'" % c for c in cwds), n2,
                                                                              sorted(set(o.partition("/")[2] for o in ops if "/" in o)) or "-"))
    def f(ctx, prop):
        return run_memfs_single(ctx, prop, ops, n2, n2, cwds=cwds, tag=name, tree=tree or TREE3, pfx="C09")
    return f


def _mk_adv(name, ops, n, n2, tier, cwds=("/a",)):
    @job(name, ["C12", "C03"], tier, functions=[MEM_FUNCS[0] % ",".join(ops)],
         bounds="one call from the tree {/, /a, /a/b, /b} with cwd %s: every path text of 1..=%d chars (two-path calls 1..=%d each) over the adversarial alphabet "
                "{'/', '.', '~', '$', 'a', '\u00e9'} (expansion of '~' and '$NAME' against a symbolic environment, a 2-byte char); obligations: no panic, the call returns, "
                "tree invariants, failure atomicity, and the reference comparison wherever the reference determines the outcome" % (cwds, n, n2))
    def f(ctx, prop):
        return run_memfs_single(ctx, prop, ops, n, n2, cwds=cwds, tag=name, alpha="/.~$a\u00e9")
    return f


_mk_adv("c12_adv_create", ["mkfile", "mkdir_p", "write_all", "append_all"], 3, 2, "quick")
_mk_adv("c12_adv_remove", ["remove", "remove_all", "set_cwd"], 3, 2, "quick")
_mk_adv("c12_adv_two", ["symlink", "move_p", "copy"], 2, 2, "quick")
_mk_adv("c12_adv_create4", ["mkfile", "mkdir_p", "remove"], 4, 2, "thorough")


def _mk_hist(name, pre, ops, tier):
    @job(name, ["C01", "C03", "C12"], tier, functions=[MEM_FUNCS[0] % ",".join(sorted(set(pre + ops)))],
         bounds="two-call histories from the tree {/, /a, /a/b, /b} with cwd '/': first one of %s, then one of %s, every path text of 1..=2 chars over {'/','a','b','.'} for each "
                "argument of both calls (data one ASCII char); the obligations (outcome and complete store vs the reference filesystem applied to the state the first call left, "
                "failure atomicity, tree invariants) are those of the second call" % (pre, ops))
    def f(ctx, prop):
        return run_memfs_single(ctx, prop, ops, 2, 2, cwds=("/",), tag=name, pre=pre, npre=2)
    return f


HIST_OPS = ["mkfile", "mkdir_p", "write_all", "append_all", "remove", "remove_all", "symlink", "set_cwd", "move_p", "copy"]
for _pre, _op in (("mkdir_p", "move_p"), ("mkdir_p", "remove"), ("mkdir_p", "copy"), ("remove", "mkdir_p"), ("write_all", "move_p")):
    _mk_hist("c01_hist_%s_%s" % (_pre, _op), [_pre], [_op], "quick")
for _pre in ("mkdir_p", "mkfile", "symlink", "remove", "move_p", "set_cwd", "remove_all", "write_all", "copy"):
    _mk_hist("c01_hist2_%s_a" % _pre, [_pre], HIST_OPS[:5], "thorough")
    # two-path first calls followed by two-path second calls are 16 length combinations each: only move_p is kept for them
    _mk_hist("c01_hist2_%s_b" % _pre, [_pre], HIST_OPS[5:] if _pre not in ("symlink", "move_p", "copy") else ["remove_all", "set_cwd", "move_p"], "thorough")


def _mk_c11t(name, ops, n, tier, cwds=("/", "/a")):
    @job(name, ["C11", "C12"], tier, functions=["Memfs::{chmod_b,chown_b,_chmod,_chown}, Chmod::{all,dirs,files,readonly,secure,no_recurse,follow,exec}, Chown::{owner,uid,gid,recurse,follow,exec}, "
                                                "sys::mode, revoking_mode, MemfsEntry::{set_mode,set_owner} and the Entries traversal (contents_first, dirs_first, pre_op closure) they drive (real MIR)"],
         bounds="one builder chain from the tree {/, /a (dir, 0750), /a/a -> /b (link), /a/b (file 'x', 0600), /b (file 'yz')} with cwd %s: every path text of 1..=%d chars over {'/','a','b','.'}; "
                "programs %s (chmod values any u32 <= 0o777, chown ids any u32)" % (" and ".join("'%s'" % c for c in cwds), n, ops))
    def f(ctx, prop):
        return run_memfs_single(ctx, prop, ops, n, n, cwds=cwds, tag=name, tree=TREE3, pfx="C11")
    return f


_mk_c11t("c11_tree_chmod_all", ["chmod_b/all/1/0", "chmod_b/all/0/0"], 2, "quick")
_mk_c11t("c11_tree_chmod_sel", ["chmod_b/dirs/1/0", "chmod_b/files/1/0", "chmod_b/both/1/0"], 2, "quick")
_mk_c11t("c11_tree_chmod_follow", ["chmod_b/all/1/1", "chmod_b/files/0/1"], 2, "quick")
_mk_c11t("c11_tree_chmod_sym", ["chmod_b/ro/1/0", "chmod_b/sec/1/0", "chmod_b/sec/1/1"], 2, "quick")
_mk_c11t("c11_tree_chown", ["chown_b/owner/1/0", "chown_b/uid/0/0", "chown_b/gid/1/1", "chown_b/owner/0/1"], 2, "quick")
_mk_c11t("c11_tree_chmod3", ["chmod_b/all/1/0", "chmod_b/both/1/1", "chmod_b/sec/0/0"], 3, "thorough", cwds=("/a",))
_mk_c11t("c11_tree_chown3", ["chown_b/owner/1/1", "chown_b/uid/1/0"], 3, "thorough", cwds=("/a",))


_mk_c09("c09_copy_plain", ["copy_b/none/0"], 2, "quick")
_mk_c09("c09_copy_all", ["copy_b/all/0"], 2, "quick")
_mk_c09("c09_copy_dirs", ["copy_b/dirs/0"], 2, "quick")
_mk_c09("c09_copy_files", ["copy_b/files/0"], 2, "quick")
_mk_c09("c09_copy_follow", ["copy_b/none/1", "copy_b/all/1"], 2, "quick")
_mk_c09("c09_copy_follow_rootlink", ["copy_b/none/1"], 2, "quick", cwds=("/",), tree=TREE4)
_mk_c09("c09_copy_nested", ["copy_b/none/0", "copy_b/files/0", "move_p"], 2, "quick", cwds=("/",), tree=TREE5)
_mk_c09("c09_move", ["move_p"], 2, "quick")
_mk_c09("c09_copy3_plain", ["copy_b/none/0"], 3, "thorough", cwds=("/",))
_mk_c09("c09_copy3_all_follow", ["copy_b/all/1"], 3, "thorough", cwds=("/",))
_mk_c09("c09_move3", ["move_p"], 3, "thorough", cwds=("/",))
_mk_mem_single("c03_mem_create4", ["mkfile", "mkdir_p"], 4, 2, "thorough")
_mk_mem_single("c03_mem_copy3", ["copy"], 3, 3, "thorough")
_mk_mem_single("c03_mem_write4", ["write_all", "append_all", "set_cwd", "remove"], 4, 2, "thorough")
_mk_mem_single("c03_mem_two3", ["symlink", "move_p"], 3, 3, "thorough")


# ------------------------------------------------------------------------------------------------
# C06: content round trips through Memfs (write_all/append_all/line helpers/read_all/read_lines)
# ------------------------------------------------------------------------------------------------
def run_roundtrip(ctx, prop, max_ops, tag="c06_roundtrip", targets=None, first_ops=None, min_ops=1):
    import itertools
    from .mirsym.values import bv_bin
    t0 = time.time()
    run = MemRun(ctx, tag)
    ex, ob, solver = run.ex, run.ob, run.solver
    unit = dict(status="pass", failures=[])
    NL = BV(32, False, 10)
    op_alphabet = ["WA0", "WA1", "WA2", "AA0", "AA1", "AA2", "AL", "WL", "ALS", "HW0", "HW1", "HA1", "WLE", "ALE"]
    shapes = []
    for n in range(min_ops, max_ops + 1):
        shapes += [sh for sh in itertools.product(op_alphabet, repeat=n) if first_ops is None or sh[0] in first_ops]
    for target, initial in (targets or (("/b", "yz"), ("/n", None))):
        for shape in shapes:
            sid = "%s_%s_%s" % (tag, target[1:], "".join(shape))
            calls, cons, model, groups = [], [], [BV(32, False, ord(c)) for c in (initial or "")], {}
            defined = initial is not None
            opcalls = []
            for oi, op in enumerate(shape):
                def fresh(n, no_nl, nonempty=False, oi=oi):
                    c, cc = sym_text(solver, "%s_%d_%d" % (sid, oi, len(groups)), n, ascii_only=True)
                    cons.extend(cc)
                    cons.extend("(not (= %s #x00000000))" % x.v for x in c)
                    if no_nl:
                        cons.extend("(not (= %s #x0000000a))" % x.v for x in c)
                        cons.extend("(not (= %s #x0000000d))" % x.v for x in c)
                    groups["op%d_%d" % (oi, len(groups))] = c
                    return c
                if op[0] == "H":
                    # handle based: open, write the bytes through the handle, drop it (drop pushes the buffer to the filesystem)
                    d = fresh(int(op[2]), False)
                    k = len(calls)
                    calls.append(("write" if op[1] == "W" else "append", [BoxRef(M.SStr(T_(target)))]))
                    calls.append(("@write", [k, BoxRef(M.VecM([BV(8, False, "((_ extract 7 0) %s)" % c.smt()) for c in d]))]))
                    calls.append(("@drop", [k]))
                    opcalls.append((k, k + 2))
                    model, defined = (list(d) if op[1] == "W" else model + list(d)), True
                    continue
                opcalls.append((len(calls), len(calls)))
                if op.startswith("WA"):
                    d = fresh(int(op[2]), False)
                    calls.append(("write_all", [BoxRef(M.SStr(T_(target))), BoxRef(M.SStr(d))]))
                    model, defined = list(d), True
                elif op.startswith("AA"):
                    d = fresh(int(op[2]), False)
                    calls.append(("append_all", [BoxRef(M.SStr(T_(target))), BoxRef(M.SStr(d))]))
                    model, defined = model + list(d), True
                elif op == "AL":
                    l = fresh(1, True)
                    calls.append(("append_line", [BoxRef(M.SStr(T_(target))), BoxRef(M.SStr(l))]))
                    model, defined = model + list(l) + [NL], True
                elif op in ("WL", "WLE"):
                    l1, l2 = fresh(1, True), fresh(2 if op == "WL" else 0, True)  # WLE: the last line is empty
                    calls.append(("write_lines", [BoxRef(M.SStr(T_(target))), BoxRef(M.VecM([BoxRef(M.SStr(l1)), BoxRef(M.SStr(l2))]))]))
                    model, defined = list(l1) + [NL] + list(l2) + [NL], True
                else:
                    l1, l2 = fresh(1 if op == "ALS" else 0, True), fresh(1, True)  # ALE: the first line is empty
                    calls.append(("append_lines", [BoxRef(M.SStr(T_(target))), BoxRef(M.VecM([BoxRef(M.SStr(l1)), BoxRef(M.SStr(l2))]))]))
                    model, defined = model + list(l1) + [NL] + list(l2) + [NL], True
            calls.append(("read_all", [BoxRef(M.SStr(T_(target)))]))
            calls.append(("read_lines", [BoxRef(M.SStr(T_(target)))]))
            calls.append(("read_all", [BoxRef(M.SStr(T_("/a/b")))]))

            def on_done(st, results, inner, i, shape=shape, model=model, groups=groups, target=target, ncalls=len(calls), opcalls=opcalls):
                cf = lambda extra: text_model(ex, st, groups, extra)
                bad = [r for r in results if r[0] in ("panic", "bound")]
                if bad:
                    ob.total += 1
                    ob.failures.append(dict(kind="panic" if bad[0][0] == "panic" else "bound", where="Memfs", cex=cf([]), shape=shape, target=target,
                                            desc="C12: content operation panics/loops: %s" % bad[0][1]))
                    return
                for k, (a, b) in enumerate(opcalls):
                    for kind, rv in results[a:b]:  # open / write (the drop returns nothing)
                        ob.prove(ex, st, "C06: %s on %s succeeds (%s)" % (shape[k], target, "".join(shape)),
                                 B(kind == "ret" and isinstance(rv, Adt) and rv.variant == 0), cf) or ob.failures[-1].update(shape=shape, target=target, where="Memfs")
                    if b == a:
                        kind, rv = results[a]
                        ob.prove(ex, st, "C06: %s on %s succeeds (%s)" % (shape[k], target, "".join(shape)), B(isinstance(rv, Adt) and rv.variant == 0), cf) or \
                            ob.failures[-1].update(shape=shape, target=target, where="Memfs")
                ra, rl, other = results[-3][1], results[-2][1], results[-1][1]
                if not (isinstance(ra, Adt) and ra.variant == 0):
                    ob.total += 1
                    ob.failures.append(dict(kind="functional", where="Memfs::read_all", cex=cf([]), shape=shape, target=target,
                                            desc="C06: read_all fails after %s" % "".join(shape)))
                    return
                ob.prove(ex, st, "C06: read_all returns exactly what the byte-vector model holds after %s on %s" % ("".join(shape), target),
                         text_eq(ra.fields[0].chars, model), cf) or ob.failures[-1].update(shape=shape, target=target, where="Memfs")
                # lines of the model
                lines, cur = [], []
                for c in model:
                    if ex.decide(st, bv_bin("Eq", c, NL)):
                        if cur and ex.decide(st, bv_bin("Eq", cur[-1], BV(32, False, 13))):
                            cur = cur[:-1]
                        lines.append(cur)
                        cur = []
                    else:
                        cur.append(c)
                if cur:
                    lines.append(cur)
                if isinstance(rl, Adt) and rl.variant == 0:
                    got = [M.sstr_of(ex, st, x).chars for x in M._obj(ex, st, rl.fields[0]).items]
                    same = B(len(got) == len(lines)) if len(got) != len(lines) else b_and(*[text_eq(a, b) for a, b in zip(got, lines)])
                    ob.prove(ex, st, "C06: read_lines agrees with the model's lines after %s" % "".join(shape), same, cf) or \
                        ob.failures[-1].update(shape=shape, target=target, where="Memfs")
                else:
                    ob.total += 1
                    ob.failures.append(dict(kind="functional", where="Memfs::read_lines", cex=cf([]), shape=shape, target=target,
                                            desc="C06: read_lines fails after %s" % "".join(shape)))
                ob.prove(ex, st, "C06: writing one path never changes another file",
                         B(isinstance(other, Adt) and other.variant == 0) if not (isinstance(other, Adt) and other.variant == 0) else
                         text_eq(other.fields[0].chars, T_("x")), cf) or ob.failures[-1].update(shape=shape, target=target, where="Memfs")
                if len(ob.samples) < 4 and len(shape) == max_ops:
                    m = cf([])
                    if m:
                        ob.samples.append(dict(ops="".join(shape), target=target, data=m))

            run.explore(TREE1, "/", calls, cons, on_done)
    seen = set()
    for f in ob.failures:
        if f["kind"] == "bound" or f["cex"] is None:
            unit["status"], unit["why"] = "inconclusive", f["desc"]
            continue
        key = (f.get("shape"), f.get("target"))
        if key in seen or len(seen) >= 4:
            continue
        seen.add(key)
        data = [v for k, v in sorted(f["cex"].items(), key=lambda kv: (int(kv[0][2:].split("_")[0]), int(kv[0].split("_")[1])))]
        body, model, di = "", (b"yz".decode() if f["target"] == "/b" else ""), 0
        for op in f["shape"]:
            if op[0] == "H":
                d = data[di]; di += 1
                body += '    { let mut h = v.%s(%s).unwrap(); assert_eq!(h.write(%s.as_bytes()).unwrap(), %d); }\n' % (
                    "write" if op[1] == "W" else "append", rs_str(f["target"]), rs_str(d), len(d.encode()))
                model = d if op[1] == "W" else model + d
            elif op.startswith("WA"):
                d = data[di]; di += 1
                body += '    v.write_all(%s, %s).unwrap();\n' % (rs_str(f["target"]), rs_str(d)); model = d
            elif op.startswith("AA"):
                d = data[di]; di += 1
                body += '    v.append_all(%s, %s).unwrap();\n' % (rs_str(f["target"]), rs_str(d)); model += d
            elif op == "AL":
                d = data[di]; di += 1
                body += '    v.append_line(%s, %s).unwrap();\n' % (rs_str(f["target"]), rs_str(d)); model += d + "\n"
            elif op in ("WL", "WLE"):
                a, b = data[di], data[di + 1]; di += 2
                body += '    v.write_lines(%s, &[%s, %s]).unwrap();\n' % (rs_str(f["target"]), rs_str(a), rs_str(b)); model = a + "\n" + b + "\n"
            else:
                a, b = data[di], data[di + 1]; di += 2
                body += '    v.append_lines(%s, &[%s, %s]).unwrap();\n' % (rs_str(f["target"]), rs_str(a), rs_str(b)); model += a + "\n" + b + "\n"
        src = MEM_REPLAY_PRELUDE + '''
#[test]
fn replay_roundtrip() {
    // %s
    let v = fixture();
%s    assert_eq!(v.read_all(%s).unwrap(), %s, "C06: read_all");
    let lines: Vec<String> = %s.lines().map(|x| x.to_string()).collect();
    assert_eq!(v.read_lines(%s).unwrap(), lines, "C06: read_lines");
    assert_eq!(v.read_all("/a/b").unwrap(), "x", "C06: another file changed");
}
''' % (f["desc"], body, rs_str(f["target"]), rs_str(model), rs_str(model), rs_str(f["target"]))
        r = native_test(src, ctx.logdir, "%s_%d" % (tag, len(seen)))
        reproduced = r["ran"] and r["failed"] > 0
        rec = dict(kind=f["kind"], desc='"%s" data=%r' % (f["desc"], data), where=f.get("where", ""), reproduced=reproduced, replay_outcome=r["out"][-400:])
        if reproduced:
            rec["replay"] = save_replay(prop, tag, src, f["desc"], dict(failed=r["failed"]))
        unit["failures"].append(rec)
        unit["status"] = "violation"
    return finish(unit, ex, solver, ob, t0, dict(models_used="Memfs executed from MIR; byte-vector reference model; BufRead::lines modelled over the handle's bytes"))


C06_FUNCS = ["Memfs::{write_all,append_all,append_line,write_lines,append_lines,read_all,read_lines,write,append,read} and MemfsFile::{write,flush,sync,drop,clone,seek} (real MIR)"]
C06_OPS = ("{write_all/append_all of 0,1,2 ASCII bytes, append_line, write_lines, append_lines with non-empty 1-2 char lines, write_lines/append_lines of two lines one of which is empty, "
           "handle-based write of 0|1 bytes and append of 1 byte (open, Write::write, drop)}")


def _mk_c06(name, tier, target, kmin, kmax, first_ops=None):
    @job(name, ["C06", "C12"], tier, functions=C06_FUNCS,
         bounds="every sequence of %d..=%d operations from %s%s on %s; data symbolic" % (
             kmin, kmax, C06_OPS, " starting with one of %s" % (first_ops,) if first_ops else "",
             "the existing file /b ('yz')" if target[0] == "/b" else "a file /n that does not exist yet"))
    def f(ctx, prop):
        return run_roundtrip(ctx, prop, kmax, tag=name, targets=(target,), first_ops=first_ops, min_ops=kmin)
    return f


_mk_c06("c06_roundtrip_k2_b", "quick", ("/b", "yz"), 1, 2)
_mk_c06("c06_roundtrip_k2_n", "quick", ("/n", None), 1, 2)
for _t, _tn in ((("/b", "yz"), "b"), (("/n", None), "n")):
    for _fo in ("WA0", "WA1", "WA2", "AA0", "AA1", "AA2", "AL", "WL", "ALS", "HW0", "HW1", "HA1", "WLE", "ALE"):
        _mk_c06("c06_roundtrip_k3_%s_%s" % (_tn, _fo.lower()), "thorough", _t, 3, 3, (_fo,))


# ------------------------------------------------------------------------------------------------
# C10: symlinks on Memfs
# ------------------------------------------------------------------------------------------------
def run_symlinks(ctx, prop, nmax, tag="c10_symlink", cwds=("/", "/a"), la_range=None, lb_range=None, tree=None):
    t0 = time.time()
    run = MemRun(ctx, tag)
    ex, ob, solver = run.ex, run.ob, run.solver
    unit = dict(status="pass", failures=[])
    tree = tree or TREE1
    kinds = {k: v[0] for k, v in tree.items()}
    for cwd in cwds:
        for la in (range(1, nmax + 1) if la_range is None else range(la_range[0], la_range[1] + 1)):
            for lb in (range(1, nmax + 1) if lb_range is None else range(lb_range[0], lb_range[1] + 1)):
                tagx = "%s_%s_%d_%d" % (tag, cwd.replace("/", "r"), la, lb)
                v1, c1, g1 = mem_args(solver, tagx + "a", ["path2"], la, la)
                v2, c2, g2 = mem_args(solver, tagx + "b", ["path2"], lb, lb)
                L, T = g1["arg0"], g2["arg0"]
                groups = {"link": L, "target": T}
                Lv, Tv = v1[0], v2[0]
                calls = [("symlink", [Lv, Tv]), ("readlink_abs", [Lv]), ("readlink", [Lv]), ("is_symlink", [Lv]), ("is_file", [Lv]),
                         ("is_dir", [Lv]), ("is_symlink_dir", [Lv]), ("is_symlink_file", [Lv]), ("remove", [Lv]), ("exists", [Lv])]

                def on_done(st, results, inner, i, L=L, T=T, groups=groups, cwd=cwd):
                    cf = lambda extra: text_model(ex, st, groups, extra)
                    bad = [r for r in results if r[0] in ("panic", "bound")]
                    if bad:
                        ob.total += 1
                        ob.failures.append(dict(kind="panic" if bad[0][0] == "panic" else "bound", where="Memfs", cex=cf([]), cwd=cwd,
                                                desc="C12: symlink scenario panics/loops: %s" % bad[0][1]))
                        return
                    sym = results[0][1]
                    if not (isinstance(sym, Adt) and sym.variant == 0):
                        return  # symlink refused: nothing to check here (atomicity is C01's)
                    la_ = abs_oracle(ex, st, L, T_(cwd), run.tenv)
                    if la_[0] != "ok":
                        return
                    Labs = la_[1]
                    # a relative target is relative to the link's own directory (as for a real symbolic link), not to the cwd
                    if ex.decide(st, TP.is_ch(T[0], TP.SLASH)):
                        ta_ = abs_oracle(ex, st, T, T_(cwd), run.tenv)
                    else:
                        ta_ = abs_oracle(ex, st, list(TP.parent_text(ex, st, Labs) or T_("/")) + T_("/") + list(T), T_(cwd), run.tenv)
                    if ta_[0] != "ok":
                        return
                    Tabs = ta_[1]
                    # the statement quantifies over link locations that are free; skip self/occupied links
                    rla, rl = results[1][1], results[2][1]
                    fail = lambda d: (ob.failures.append(dict(kind="functional", where="Memfs", cex=cf([]), cwd=cwd, desc=d)), setattr(ob, "total", ob.total + 1))
                    if not (isinstance(rla, Adt) and rla.variant == 0):
                        fail("C10: readlink_abs fails on a link that was just created")
                    else:
                        ob.prove(ex, st, "C10: readlink_abs(link) equals abs(target) (cwd %s)" % cwd, text_eq(rla.fields[0].chars, Tabs), cf) or \
                            ob.failures[-1].update(cwd=cwd, where="Memfs")
                    if not (isinstance(rl, Adt) and rl.variant == 0):
                        fail("C10: readlink fails on a link that was just created")
                    else:
                        r = rl.fields[0].chars
                        buf = TP.PathBufT(TP.parent_text(ex, st, Labs) or [])
                        TP.push_text(ex, st, buf, r)
                        ob.prove(ex, st, "C10: cleaning dir(link)/readlink(link) gives readlink_abs(link) (cwd %s)" % cwd,
                                 text_eq(TP.go_clean_text(ex, st, buf.chars), Tabs), cf) or ob.failures[-1].update(cwd=cwd, where="Memfs")
                        ob.prove(ex, st, "C10: readlink(link) is a relative path", b_not(TP.is_ch(r[0], TP.SLASH)) if r else B(True), cf) or \
                            ob.failures[-1].update(cwd=cwd, where="Memfs")
                    ob.prove(ex, st, "C10: is_symlink(link) is true", results[3][1], cf) or ob.failures[-1].update(cwd=cwd, where="Memfs")
                    ob.prove(ex, st, "C10: is_file(link) is false (link exclusion)", b_not(results[4][1]), cf) or ob.failures[-1].update(cwd=cwd, where="Memfs")
                    ob.prove(ex, st, "C10: is_dir(link) is false (link exclusion)", b_not(results[5][1]), cf) or ob.failures[-1].update(cwd=cwd, where="Memfs")
                    tk = None
                    for k, kd in kinds.items():
                        if ex.decide(st, TP.path_eq_text(ex, st, T_(k), Tabs)):
                            tk = kd
                    ob.prove(ex, st, "C10: is_symlink_dir reflects the kind the target has at creation", B(True) if False else
                             __import__("lib.mirsym.values", fromlist=["b_eq"]).b_eq(results[6][1], B(tk == "d")), cf) or ob.failures[-1].update(cwd=cwd, where="Memfs")
                    ob.prove(ex, st, "C10: is_symlink_file reflects the kind the target has at creation",
                             __import__("lib.mirsym.values", fromlist=["b_eq"]).b_eq(results[7][1], B(tk == "f")), cf) or ob.failures[-1].update(cwd=cwd, where="Memfs")
                    rm = results[8][1]
                    ob.prove(ex, st, "C10: remove(link) succeeds and removes the link itself", b_and(B(isinstance(rm, Adt) and rm.variant == 0), b_not(results[9][1])), cf) or \
                        ob.failures[-1].update(cwd=cwd, where="Memfs")
                    after = snapshot_store(ex, st, inner)
                    if tk is not None:
                        ob.prove(ex, st, "C10: removing the link never removes its target", B(find_key(ex, st, after["entries"], Tabs) is not None), cf) or \
                            ob.failures[-1].update(cwd=cwd, where="Memfs")
                    if len(ob.samples) < 4:
                        m = cf([])
                        if m:
                            ob.samples.append(dict(cwd=cwd, link=m["link"], target=m["target"]))

                run.explore(tree, cwd, calls, c1 + c2, on_done)
    seen = set()
    for f in ob.failures:
        if f["kind"] == "bound" or f["cex"] is None:
            unit["status"], unit["why"] = "inconclusive", f["desc"]
            continue
        key = re.sub(r" \(cwd .*", "", f["desc"])
        if key in seen or len(seen) >= 5:
            continue
        seen.add(key)
        l, t = f["cex"]["link"], f["cex"]["target"]
        src = MEM_REPLAY_PRELUDE + '''
#[test]
fn replay_symlink() {
    // %s
    let v = fixture();%s
    v.set_cwd(%s).unwrap();
    let (l, t) = (%s, %s);
    let t_is = |v: &Memfs| -> (bool, bool) { let tabs = if std::path::Path::new(t).is_absolute() { v.abs(t).unwrap() } else { v.abs(v.abs(l).unwrap().parent().unwrap().join(t)).unwrap() }; (v.is_dir(&tabs), v.is_file(&tabs)) };
    let tkind0 = t_is(&v);
    if v.symlink(l, t).is_err() { return; }
    let tabs = if std::path::Path::new(t).is_absolute() { v.abs(t).unwrap() } else { v.abs(v.abs(l).unwrap().parent().unwrap().join(t)).unwrap() };
    let tkind = tkind0;
    assert_eq!(v.readlink_abs(l).unwrap().as_os_str(), tabs.as_os_str(), "C10: readlink_abs");
    let rel = v.readlink(l).unwrap();
    assert!(rel.is_relative(), "C10: readlink not relative: {:?}", rel);
    assert_eq!(sys::clean(v.abs(l).unwrap().parent().unwrap().join(&rel)), tabs, "C10: dir(link)/readlink(link)");
    assert!(v.is_symlink(l), "C10: is_symlink");
    assert!(!v.is_file(l), "C10: is_file(link) must be false (link exclusion)");
    assert!(!v.is_dir(l), "C10: is_dir(link) must be false (link exclusion)");
    assert_eq!((v.is_symlink_dir(l), v.is_symlink_file(l)), tkind, "C10: is_symlink_dir / is_symlink_file");
    assert!(v.remove(l).is_ok() && !v.exists(l), "C10: remove(link)");
    assert!(!tkind.0 && !tkind.1 || v.exists(&tabs), "C10: removing the link removed its target");
}
''' % (f["desc"], '\n    v.mkdir_p("/a/a/a").unwrap();' if tree is TREE2 else "", rs_str(f["cwd"]), rs_str(l), rs_str(t))
        r = native_test(src, ctx.logdir, "%s_%d" % (tag, len(seen)))
        reproduced = r["ran"] and r["failed"] > 0
        rec = dict(kind=f["kind"], desc='"%s" link=%r target=%r cwd=%r' % (f["desc"], l, t, f["cwd"]), where="Memfs", reproduced=reproduced,
                   replay_outcome=r["out"][-500:])
        if reproduced:
            rec["replay"] = save_replay(prop, tag, src, f["desc"], dict(failed=r["failed"]))
        unit["failures"].append(rec)
        unit["status"] = "violation"
    return finish(unit, ex, solver, ob, t0, dict(models_used="Memfs executed from MIR; abs/clean oracles on text"))


@job("c10_symlink_n2", ["C10", "C12"], "quick",
     functions=["Memfs::{symlink,_symlink,readlink,readlink_abs,is_symlink,is_file,is_dir,is_symlink_dir,is_symlink_file,remove,exists} (real MIR)"],
     bounds="every (link, target) pair of texts of 1..=2 chars over {'/','a','b','.'} from the tree {/, /a, /a/b, /b} with cwd '/' and '/a'")
def c10_quick(ctx, prop):
    return run_symlinks(ctx, prop, 2)


def _mk_c10(name, la, lb, cwd, tier):
    @job(name, ["C10", "C12"], tier,
         functions=["Memfs::{symlink,_symlink,readlink,readlink_abs,is_symlink,is_file,is_dir,is_symlink_dir,is_symlink_file,remove,exists} (real MIR)"],
         bounds="every (link, target) pair of texts of exactly %d chars (link) and exactly %d chars (target) over {'/','a','b','.'} from the tree "
                "{/, /a, /a/b, /b} with cwd '%s'" % (la, lb, cwd))
    def f(ctx, prop):
        return run_symlinks(ctx, prop, lb, tag=name, cwds=(cwd,), la_range=(la, la), lb_range=(lb, lb))
    return f


def _mk_c10_deep(name, la, lbs, cwd, tier):
    @job(name, ["C10", "C12"], tier,
         functions=["Memfs::{symlink,_symlink,readlink,readlink_abs,is_symlink,is_file,is_dir,is_symlink_dir,is_symlink_file,remove,exists} (real MIR)"],
         bounds="every (link, target) pair of texts of exactly %d chars (link) and %s chars (target) over {'/','a','b','.'} from the depth-3 tree "
                "{/, /a, /a/a, /a/a/a, /a/b, /b} with cwd '%s'" % (la, "/".join(map(str, lbs)), cwd))
    def f(ctx, prop):
        return run_symlinks(ctx, prop, max(lbs), tag=name, cwds=(cwd,), la_range=(la, la), lb_range=(min(lbs), max(lbs)), tree=TREE2)
    return f


_mk_c10_deep("c10_symlink_deep_aa", 1, (1, 2, 3), "/a/a", "quick")
_mk_c10_deep("c10_symlink_deep_aaa", 1, (1, 2, 3), "/a/a/a", "quick")
_mk_c10_deep("c10_symlink_deep_aa_l2", 2, (1, 2, 3), "/a/a", "thorough")
_mk_c10_deep("c10_symlink_deep_aaa_l2", 2, (1, 2, 3), "/a/a/a", "thorough")
_mk_c10_deep("c10_symlink_deep_aaa_t4", 1, (4,), "/a/a/a", "thorough")


for _cwd, _c in (("/", "r"), ("/a", "a")):
    for _lb in (1, 2, 3):
        _mk_c10("c10_symlink_l3_t%d_%s" % (_lb, _c), 3, _lb, _cwd, "quick")
    for _lb in (1, 2, 3):
        _mk_c10("c10_symlink_l4_t%d_%s" % (_lb, _c), 4, _lb, _cwd, "thorough")
    _mk_c10("c10_symlink_l2_t4_%s" % _c, 2, 4, _cwd, "thorough")


# ------------------------------------------------------------------------------------------------
# C04: interleavings of lock-protected critical sections of small multi-threaded programs
# ------------------------------------------------------------------------------------------------
def lock_available(lk, tid, write):
    if lk.writer is not None:
        return False
    if write and any(v for k, v in lk.readers.items()):
        return False
    return True


class ConcRun(MemRun):
    """Explores every interleaving of the threads' critical sections: a context switch is possible
    before each lock acquisition (and at the start/end of each call).  All other steps of a thread only
    touch thread-private data or data protected by the lock it holds."""

    def explore_program(self, tree, cwd, programs, cons, on_final, max_sched=5000):
        """programs: list (one per thread) of [(method, [values])]"""
        ex = self.ex
        memfs, inner = mk_memfs(tree, cwd)
        nthreads = len(programs)
        self.nsched = 0

        def successors(st):
            """st: no thread is executing; every thread is at a call boundary or waiting at a lock"""
            out = []
            ths = st.meta["threads"]
            lk = self.lock_of(st)
            runnable = []
            for t in ths:
                if t["waiting"] is not None:
                    if lock_available(lk, t["tid"], t["waiting"]["write"]):
                        runnable.append(t["tid"])
                elif t["pc"] < len(programs[t["tid"]]):
                    runnable.append(t["tid"])
            if not runnable:
                if any(t["waiting"] is not None for t in ths):
                    on_final(st, "deadlock", None)
                else:
                    on_final(st, "done", None)
                return []
            for tid in runnable:
                s2 = st.clone()
                t = s2.meta["threads"][tid]
                s2.meta["tid"] = tid
                s2.meta["trace"] = s2.meta["trace"] + [tid]
                s2.done = False
                if t["waiting"] is not None:
                    s2.frames = t["frames"]
                    t["frames"] = None
                    t["waiting"] = None
                    s2.meta["granted"] = True
                else:
                    name, vals = programs[tid][t["pc"]]
                    fr_state = ex.start(self.fn(name), [BoxRef(s2.meta["memfs"])] + list(vals))
                    s2.frames = fr_state.frames
                    s2.meta["granted"] = False
                out.append(s2)
            self.nsched += len(out)
            if self.nsched > max_sched:
                raise Unsupported("schedule budget exceeded (%d)" % max_sched)
            return out

        def on_yield(st, y):
            # the running thread reached a lock acquisition: park it, then schedule
            tid = st.meta["tid"]
            t = st.meta["threads"][tid]
            t["frames"] = st.frames
            t["waiting"] = dict(write=y.info["write"])
            st.frames = []
            return successors(st)

        def on_path(st):
            # the running thread finished its current call
            if st.meta.get("boot"):
                st.meta["boot"] = False
                return successors(st)
            tid = st.meta["tid"]
            t = st.meta["threads"][tid]
            if st.panic or st.bound_hit:
                on_final(st, "panic", "thread %d: %s" % (tid, st.panic or st.bound_hit))
                return
            t["results"] = t["results"] + [st.retval]
            t["pc"] += 1
            st.frames = []
            st.retval = None
            return successors(st)

        ex.on_yield = on_yield
        from .mirsym.engine import State
        st0 = State()
        st0.done = True
        st0.pc = list(cons)
        st0.meta = dict(sched=True, granted=False, boot=True, tid=0, trace=[], memfs=memfs, inner=inner,
                        threads=[dict(tid=i, pc=0, frames=None, waiting=None, results=[]) for i in range(nthreads)])
        try:
            ex.explore(st0, on_path)
        finally:
            ex.on_yield = None


def value_same(ex, st, a, b):
    """B: two returned values are observably equal"""
    from .mirsym.values import b_eq, bv_bin
    if isinstance(a, Adt) and isinstance(b, Adt):
        if a.ty != b.ty or a.variant != b.variant:
            return B(False)
        if a.ty == "Result" and a.variant == 1:
            return B(True)  # error kinds are compared by variant of the Result only
        if len(a.fields) != len(b.fields):
            return B(False)
        return b_and(*[value_same(ex, st, x, y) for x, y in zip(a.fields, b.fields)]) if a.fields else B(True)
    if isinstance(a, (TP.PathBufT, M.SStr)) and isinstance(b, (TP.PathBufT, M.SStr)):
        return text_eq(a.chars, b.chars)
    if isinstance(a, B) and isinstance(b, B):
        return b_eq(a, b)
    if isinstance(a, BV) and isinstance(b, BV):
        return bv_bin("Eq", a, b)
    if isinstance(a, M.VecM) and isinstance(b, M.VecM):
        if len(a.items) != len(b.items):
            return B(False)
        return b_and(*[value_same(ex, st, M._obj(ex, st, x), M._obj(ex, st, y)) for x, y in zip(a.items, b.items)]) if a.items else B(True)
    return B(type(a) is type(b))


def merges(seqs):
    """all interleavings of the call sequences that respect each thread's program order: lists of (tid, idx)"""
    if all(not s for s in seqs):
        return [[]]
    out = []
    for t, s in enumerate(seqs):
        if s:
            rest = [x if i != t else x[1:] for i, x in enumerate(seqs)]
            for m in merges(rest):
                out.append([s[0]] + m)
    return out


CONC_DATA = {}


def conc_programs(solver):
    """2-thread programs over an op alphabet with concrete paths and symbolic 1-byte data"""
    def data(name):
        if name not in CONC_DATA:
            c, cc = sym_text(solver, "cd_" + name, 1, ascii_only=True)
            CONC_DATA[name] = (c, cc + ["(not (= %s #x00000000))" % c[0].v, "(not (= %s #x0000000a))" % c[0].v])
        return CONC_DATA[name]
    P = lambda s: BoxRef(M.SStr(T_(s)))
    D = lambda n: BoxRef(M.SStr(data(n)[0]))
    ops = {
        "append_b_x": ("append_all", [P("/b"), D("x")]), "append_b_y": ("append_all", [P("/b"), D("y")]),
        "write_b_x": ("write_all", [P("/b"), D("x")]), "write_n_y": ("write_all", [P("/n"), D("y")]),
        "mkdir_de": ("mkdir_p", [P("/d/e")]), "mkdir_d": ("mkdir_p", [P("/d")]), "mkfile_n": ("mkfile", [P("/n")]),
        "remove_b": ("remove", [P("/b")]), "remove_n": ("remove", [P("/n")]), "removeall_a": ("remove_all", [P("/a")]),
        "read_b": ("read_all", [P("/b")]), "exists_n": ("exists", [P("/n")]), "isdir_d": ("is_dir", [P("/d")]),
        "move_b_c": ("move_p", [P("/b"), P("/c")]), "setcwd_a": ("set_cwd", [P("/a")]), "mkfile_rel": ("mkfile", [P("r")]),
        "symlink_l_b": ("symlink", [P("/l"), P("/b")]), "appendline_b": ("append_line", [P("/b"), D("y")]),
        "append_n_x": ("append_all", [P("/n"), D("x")]), "append_n_y": ("append_all", [P("/n"), D("y")]),
        "move_b_ab": ("move_p", [P("/b"), P("/a/b")]), "read_ab": ("read_all", [P("/a/b")]),
        "copy_b_n": ("copy", [P("/b"), P("/n")]), "copy_a_d": ("copy", [P("/a"), P("/d")]), "allpaths_a": ("all_paths", [P("/a")]), "paths_root": ("paths", [P("/")]),
        "write_ab_x": ("write_all", [P("/a/b"), D("x")]),
    }
    return ops, data


def run_concurrent(ctx, prop, programs, tag="c04_conc"):
    """programs: list of (name, [[opnames thread0], [opnames thread1], ...])"""
    t0 = time.time()
    run = ConcRun(ctx, tag)
    ex, ob, solver = run.ex, run.ob, run.solver
    CONC_DATA.clear()
    ops, data = conc_programs(solver)
    unit = dict(status="pass", failures=[])
    nsched_total = 0
    for pname, threads in programs:
        progs = [[ops[o] for o in th] for th in threads]
        cons = []
        for k in ("x", "y"):
            cons += data(k)[1]
        # ---- sequential reference outcomes: every order of whole calls that respects program order
        seq_out = []
        for order in merges([[(t, i) for i in range(len(th))] for t, th in enumerate(progs)]):
            calls = [progs[t][i] for t, i in order]
            paths = []

            def on_done(st, results, inner, i, paths=paths, order=order):
                paths.append((list(st.pc), results, snapshot_store(ex, st, inner)))
            MemRun.explore(run, TREE1, "/", calls, cons, on_done)
            if len(paths) == 1 and any(r[0] != "ret" for r in paths[0][1]):
                # a call that panics or never returns (self-deadlock) even without concurrency: every thread sharing the
                # filesystem is blocked from then on
                badr = [r for r in paths[0][1] if r[0] != "ret"][0]
                ob.total += 1
                ob.failures.append(dict(kind="panic", where="Memfs (concurrent)", cex={}, program=pname, threads=threads, trace="sequential %s" % (order,),
                                        desc="C04: a call of program %s does not return normally even when run alone (%s: %s)" % (pname, badr[0], badr[1])))
                seq_out = None
                break
            if len(paths) != 1:
                raise Unsupported("sequential reference run of %s is not a single path (%d)" % (pname, len(paths)))
            per_thread = {}
            for (t, i), r in zip(order, paths[0][1]):
                per_thread.setdefault(t, []).append(r[1])
            seq_out.append((order, per_thread, paths[0][2]))
        if seq_out is None:
            continue
        # ---- every interleaving of the critical sections
        groups = {k: data(k)[0] for k in ("x", "y")}
        nfinal = [0]

        def on_final(st, kind, detail, pname=pname, seq_out=seq_out, threads=threads):
            nfinal[0] += 1
            cf = lambda extra: text_model(ex, st, groups, extra)
            trace = st.meta["trace"]
            if kind in ("deadlock", "panic"):
                ob.total += 1
                ob.failures.append(dict(kind="panic", where="Memfs (concurrent)", cex=cf([]), program=pname, threads=threads, trace=trace,
                                        desc="C04: %s in program %s under schedule %s%s" % (kind, pname, trace, ": " + detail if detail else "")))
                return
            lk = run.lock_of(st)
            if lk is not None and not lk.free():
                ob.total += 1
                ob.failures.append(dict(kind="panic", where="Memfs (concurrent)", cex=cf([]), program=pname, threads=threads, trace=trace,
                                        desc="C04: the filesystem lock is still held at quiescence in program %s" % pname))
                return
            after = snapshot_store(ex, st, st.meta["inner"])
            for desc, f in store_wf(ex, st, after):
                ob.prove(ex, st, desc + " (at quiescence, program %s)" % pname, f, cf) or ob.failures[-1].update(program=pname, threads=threads, trace=trace, where="Memfs (concurrent)")
            alts = []
            for order, per_thread, snap in seq_out:
                conj = [store_same(ex, st, snap, after)]
                for t in st.meta["threads"]:
                    exp = per_thread.get(t["tid"], [])
                    if len(exp) != len(t["results"]):
                        conj.append(B(False))
                    else:
                        conj += [value_same(ex, st, a, b) for a, b in zip(exp, t["results"])]
                alts.append(b_and(*conj))
            ob.prove(ex, st, "C04: results and final state of program %s equal those of some sequential order of its calls" % pname,
                     b_or(*alts), cf) or ob.failures[-1].update(program=pname, threads=threads, trace=trace, where="Memfs (concurrent)")

        run.explore_program(TREE1, "/", progs, cons, on_final)
        nsched_total += run.nsched
        if len(ob.samples) < 4:
            ob.samples.append(dict(program=pname, threads=threads, interleavings_explored=nfinal[0], sequential_orders=len(seq_out)))
    seen = set()
    for f in ob.failures:
        if f["kind"] == "bound":
            unit["status"], unit["why"] = "inconclusive", f["desc"]
            continue
        key = f.get("program")
        if key in seen or len(seen) >= 4:
            continue
        seen.add(key)
        src = conc_replay_src(f)
        r = native_test(src, ctx.logdir, "%s_%d" % (tag, len(seen)))
        reproduced = r["ran"] and r["failed"] > 0
        rec = dict(kind=f["kind"], desc='"%s" schedule=%s' % (f["desc"], f.get("trace")), where=f.get("where", ""), reproduced=reproduced,
                   replay_outcome=r["out"][-600:])
        if reproduced:
            rec["replay"] = save_replay(prop, tag, src, f["desc"], dict(failed=r["failed"]))
        unit["failures"].append(rec)
        unit["status"] = "violation"
    u = finish(unit, ex, solver, ob, t0, dict(models_used="Memfs from MIR; RwLock with owner tracking; scheduler switching threads before every lock acquisition"))
    u["notes"] = "%d scheduling decisions explored over %d programs" % (nsched_total, len(programs))
    return u


CONC_RUST_OPS = {
    "append_b_x": 'v.append_all("/b", "X").map(|_| String::new())', "append_b_y": 'v.append_all("/b", "Y").map(|_| String::new())',
    "write_b_x": 'v.write_all("/b", "X").map(|_| String::new())', "write_n_y": 'v.write_all("/n", "Y").map(|_| String::new())',
    "mkdir_de": 'v.mkdir_p("/d/e").map(|_| String::new())', "mkdir_d": 'v.mkdir_p("/d").map(|_| String::new())',
    "mkfile_n": 'v.mkfile("/n").map(|_| String::new())', "remove_b": 'v.remove("/b").map(|_| String::new())',
    "remove_n": 'v.remove("/n").map(|_| String::new())', "removeall_a": 'v.remove_all("/a").map(|_| String::new())',
    "read_b": 'v.read_all("/b")', "exists_n": 'Ok::<String, RvError>(v.exists("/n").to_string())',
    "isdir_d": 'Ok::<String, RvError>(v.is_dir("/d").to_string())', "move_b_c": 'v.move_p("/b", "/c").map(|_| String::new())',
    "setcwd_a": 'v.set_cwd("/a").map(|_| String::new())', "mkfile_rel": 'v.mkfile("r").map(|_| String::new())',
    "symlink_l_b": 'v.symlink("/l", "/b").map(|_| String::new())', "appendline_b": 'v.append_line("/b", "Y").map(|_| String::new())',
    "append_n_x": 'v.append_all("/n", "X").map(|_| String::new())', "append_n_y": 'v.append_all("/n", "Y").map(|_| String::new())',
    "move_b_ab": 'v.move_p("/b", "/a/b").map(|_| String::new())', "read_ab": 'v.read_all("/a/b")',
    "copy_b_n": 'v.copy("/b", "/n").map(|_| String::new())', "copy_a_d": 'v.copy("/a", "/d").map(|_| String::new())',
    "allpaths_a": 'v.all_paths("/a").map(|x| format!("{:?}", x))', "paths_root": 'v.paths("/").map(|x| format!("{:?}", x))',
    "write_ab_x": 'v.write_all("/a/b", "X").map(|_| String::new())',
}


def conc_replay_src(f, rounds=20000):
    """Stress replay: the program is run many times on real threads; every outcome must equal the outcome of
    some sequential order (computed natively by running the orders sequentially)."""
    return _conc_replay_src(f).replace("0..ROUNDS", "0..%d" % rounds)


def _conc_replay_src(f):
    threads = f["threads"]
    orders = merges([[(t, i) for i in range(len(th))] for t, th in enumerate(threads)])
    seq_code = ""
    for k, order in enumerate(orders):
        body = "".join('        res[%d].push(format!("{:?}", %s));\n' % (t, CONC_RUST_OPS[threads[t][i]]) for t, i in order)
        seq_code += '    {\n        let v = fixture();\n        let mut res: Vec<Vec<String>> = vec![vec![]; %d];\n%s        allowed.push((res, dump(&v)));\n    }\n' % (len(threads), body)
    spawn = ""
    for t, th in enumerate(threads):
        calls = "".join('            out.push(format!("{:?}", %s));\n' % CONC_RUST_OPS[o] for o in th)
        spawn += '''        let v = fs.clone();
        let b = barrier.clone();
        handles.push(std::thread::spawn(move || {
            let mut out: Vec<String> = vec![];
            b.wait();
%s            out
        }));
''' % calls
    return MEM_REPLAY_PRELUDE + '''
#[test]
fn replay_concurrent() {
    // a call that never returns (deadlock) must fail the replay, not hang it
    let (tx, rx) = std::sync::mpsc::channel();
    std::thread::spawn(move || { replay_body(); let _ = tx.send(()); });
    rx.recv_timeout(std::time::Duration::from_secs(90)).expect("C04: the calls did not all return within 90 s (deadlock) or a check failed");
}

fn replay_body() {
    // %s
    let mut allowed: Vec<(Vec<Vec<String>>, String)> = vec![];
%s
    for round in 0..ROUNDS {
        let fs = std::sync::Arc::new(fixture());
        let barrier = std::sync::Arc::new(std::sync::Barrier::new(%d));
        let mut handles = vec![];
%s
        let res: Vec<Vec<String>> = handles.into_iter().map(|h| h.join().expect("C04: a thread panicked")).collect();
        let got = (res, dump(&fs));
        assert!(allowed.contains(&got), "C04: round {}: outcome {:?} is not the outcome of any sequential order {:?}", round, got, allowed);
        if let Err(e) = well_formed(&fs) { panic!("C04: tree not well formed at quiescence: {}", e); }
    }
}
''' % (f["desc"].replace("\n", " "), seq_code, len(threads), spawn)


CONC_QUICK = [
    ("append||append", [["append_b_x"], ["append_b_y"]]),
    ("write||append", [["write_b_x"], ["append_b_y"]]),
    ("mkdir||mkdir", [["mkdir_de"], ["mkdir_d"]]),
    ("mkfile||remove", [["mkfile_n"], ["remove_n"]]),
    ("move||append", [["move_b_c"], ["append_b_y"]]),
    ("remove_all||mkfile", [["removeall_a"], ["mkfile_n"]]),
    ("set_cwd||mkfile_rel", [["setcwd_a"], ["mkfile_rel"]]),
    ("read||write", [["read_b"], ["write_b_x"]]),
    ("symlink||remove", [["symlink_l_b"], ["remove_b"]]),
    ("append_new||append_new", [["append_n_x"], ["append_n_y"]]),
    ("append_new||write_new", [["append_n_x"], ["write_n_y"]]),
    ("move_over_file||read", [["move_b_ab"], ["read_ab"]]),
    ("move_over_file||append", [["move_b_ab"], ["append_b_y"]]),
    ("copy||append", [["copy_b_n"], ["append_b_y"]]),
    ("copy_dir||write_inside", [["copy_a_d"], ["write_ab_x"]]),
    ("all_paths||remove_all", [["allpaths_a"], ["removeall_a"]]),
    ("paths||mkfile", [["paths_root"], ["mkfile_n"]]),
]


@job("c04_interleavings", ["C04", "C12"], "quick",
     functions=["Memfs::{append_all,write_all,mkdir_p,mkfile,remove,remove_all,move_p,set_cwd,read_all,symlink} (real MIR) under a thread scheduler"],
     bounds="17 two-thread programs with one call per thread from the op alphabet (incl. creation races on a file that does not exist yet, a move onto an existing file, copies and listing snapshots); every interleaving of the lock-protected critical sections (context switch before each lock acquisition); data bytes symbolic")
def c04_quick(ctx, prop):
    return run_concurrent(ctx, prop, CONC_QUICK)


CONC_ALPHA = ["append_b_x", "append_b_y", "write_b_x", "write_n_y", "mkdir_de", "mkdir_d", "mkfile_n", "remove_b", "remove_n", "removeall_a",
              "read_b", "exists_n", "isdir_d", "move_b_c", "setcwd_a", "mkfile_rel", "symlink_l_b", "appendline_b", "append_n_x", "append_n_y",
              "move_b_ab", "read_ab", "copy_b_n", "copy_a_d", "allpaths_a", "paths_root", "write_ab_x"]


def _mk_conc_pairs(k, n):
    @job("c04_pairs_%d" % k, ["C04", "C12"], "thorough",
         functions=["Memfs operations (real MIR) under a thread scheduler"],
         bounds="two-thread programs with one call per thread: chunk %d of %d of all ordered pairs over a 27-operation alphabet; every interleaving of the critical sections" % (k + 1, n))
    def f(ctx, prop):
        pairs = [("%s||%s" % (a, b), [[a], [b]]) for a in CONC_ALPHA for b in CONC_ALPHA]
        return run_concurrent(ctx, prop, pairs[k::n], tag="c04_pairs_%d" % k)
    return f


for _k in range(12):
    _mk_conc_pairs(_k, 12)


@job("c04_two_calls", ["C04", "C12"], "thorough",
     functions=["Memfs operations (real MIR) under a thread scheduler"],
     bounds="two-thread programs with two calls in one thread (8 programs); every interleaving of the critical sections")
def c04_two_calls(ctx, prop):
    progs = [
        ("mkfile;append||append", [["mkfile_n", "append_b_x"], ["append_b_y"]]),
        ("write;read||append", [["write_b_x", "read_b"], ["append_b_y"]]),
        ("mkdir;mkfile_rel||setcwd", [["mkdir_d", "mkfile_rel"], ["setcwd_a"]]),
        ("remove;mkfile||exists", [["remove_n", "mkfile_n"], ["exists_n"]]),
        ("move;append||read", [["move_b_c", "append_b_x"], ["read_b"]]),
        ("append;append||append", [["append_b_x", "appendline_b"], ["append_b_y"]]),
        ("symlink;remove||write", [["symlink_l_b", "remove_b"], ["write_b_x"]]),
        ("removeall;mkdir||mkfile", [["removeall_a", "mkdir_de"], ["mkfile_n"]]),
    ]
    return run_concurrent(ctx, prop, progs, tag="c04_two_calls")


# ------------------------------------------------------------------------------------------------
# C01 (first sentence, single calls): a plain reference tree filesystem written from the trait docs
# ------------------------------------------------------------------------------------------------
def ref_from_snapshot(ex, st, s):
    """reference state: [{key, kind 'd'|'f', content|None, mode, uid, gid}] + cwd (links are not in the fixture)"""
    nodes = []
    for e in s["entries"]:
        if ex.decide(st, e["link"]):
            nodes.append(dict(key=list(e["key"]), kind="l", content=None, alt=list(e["alt"]), mode=e["mode"], uid=e["uid"], gid=e["gid"],
                              tkind="d" if ex.decide(st, e["dir"]) else "f" if ex.decide(st, e["file"]) else None))
            continue
        kind = "d" if ex.decide(st, e["dir"]) else "f"
        content = None
        if kind == "f":
            f = find_key(ex, st, s["files"], e["key"])
            content = list(f["data"]) if f else []
        nodes.append(dict(key=list(e["key"]), kind=kind, content=content, mode=e["mode"], uid=e["uid"], gid=e["gid"]))
    return dict(nodes=nodes, cwd=list(s["cwd"]))


def ref_find(ex, st, ref, key):
    for n in ref["nodes"]:
        if ex.decide(st, TP.path_eq_text(ex, st, n["key"], key)):
            return n
    return None


def ref_children(ex, st, ref, key):
    out = []
    for n in ref["nodes"]:
        p = TP.parent_text(ex, st, n["key"])
        if p is not None and ex.decide(st, TP.path_eq_text(ex, st, p, key)):
            out.append(n)
    return out


def ref_apply(ex, st, ref, op, paths, data, opts=None):
    """returns (outcome 'ok'|'err'|'skip', returned path text or None); mutates ref on success"""
    p = paths[0]
    is_root = len(TP.tokenize(ex, st, p)) == 1
    node = ref_find(ex, st, ref, p)
    newfile = lambda content: dict(key=list(p), kind="f", content=content, mode=BV(32, False, 0o100644), uid=BV(32, False, 1000), gid=BV(32, False, 1000))

    def parent_ok():
        par = TP.parent_text(ex, st, p)
        pn = ref_find(ex, st, ref, par) if par is not None else None
        return pn is not None and pn["kind"] == "d"

    def parent_err():
        """documented error kind when the parent is unusable: DoesNotExist (missing) / IsNotDir (not a directory)"""
        par = TP.parent_text(ex, st, p)
        pn = ref_find(ex, st, ref, par) if par is not None else None
        return ("err", "does_not_exist" if pn is None else "is_not_dir")

    if op == "mkfile":
        if node is not None:
            if node["kind"] != "f":
                return ("skip", None) if is_root else ("err", "is_not_file" if node["kind"] == "d" else None)
            return ("ok", p)
        if not parent_ok():
            return parent_err()
        ref["nodes"].append(newfile([]))
        return ("ok", p)
    if op in ("write_all", "append_all"):
        d = [BV(8, False, c.v) if c.concrete else BV(8, False, "((_ extract 7 0) %s)" % c.smt()) for c in data]
        if node is not None:
            if node["kind"] != "f":
                return ("skip", None) if is_root else ("err", "is_not_file" if node["kind"] == "d" else None)
            node["content"] = (node["content"] + d) if op == "append_all" else d
            return ("ok", None)
        if not parent_ok():
            return parent_err()
        ref["nodes"].append(newfile(d))
        return ("ok", None)
    if op == "mkdir_p":
        toks = TP.tokenize(ex, st, p)
        cur = TP.PathBufT([])
        made = []
        for t in toks:
            TP.push_text(ex, st, cur, t[0].text)
            n = ref_find(ex, st, ref, cur.chars)
            if n is None:
                made.append(dict(key=list(cur.chars), kind="d", content=None, mode=BV(32, False, 0o40755), uid=BV(32, False, 1000), gid=BV(32, False, 1000)))
            elif n["kind"] == "l":
                return ("skip", None)  # a link on the way (or as the target): whether it counts as a directory is not determined by the documentation
            elif n["kind"] != "d":
                return ("err", "is_not_dir")
        ref["nodes"] += made
        return ("ok", p)
    if op == "remove":
        if node is None:
            return ("ok", None)
        if is_root:
            return ("skip", None)
        if node["kind"] == "d" and ref_children(ex, st, ref, p):
            return ("err", None)
        ref["nodes"].remove(node)
        return ("ok", None)
    if op == "remove_all":
        if is_root:
            return ("skip", None)
        if node is None:
            return ("ok", None)
        keep = []
        for n in ref["nodes"]:
            tn, tp = TP.tokenize(ex, st, n["key"]), TP.tokenize(ex, st, p)
            under = len(tn) >= len(tp) and all(ex.decide(st, TP.tcomp_eq(a[0], b[0])) for a, b in zip(tn[:len(tp)], tp))
            if not under:
                keep.append(n)
        ref["nodes"] = keep
        return ("ok", None)
    if op == "set_cwd":
        if node is None:
            return ("err", "does_not_exist")
        ref["cwd"] = list(p)
        return ("ok", p)
    if op == "symlink":
        # paths = [abs(link), abs(target anchored at the link's directory)]
        if is_root or node is not None:
            return ("skip", None)  # linking over something that exists: not determined by the documentation
        if not parent_ok():
            return ("err", None)
        t = ref_find(ex, st, ref, paths[1])
        if t is not None and t["kind"] == "l" and t.get("tkind") is None:
            return ("skip", None)  # a link to a dangling link: the kind it reports is not determined by the documentation
        ref["nodes"].append(dict(key=list(p), kind="l", content=None, alt=list(paths[1]), tkind=((t["kind"] if t["kind"] != "l" else t.get("tkind")) if t else None),
                                 mode=BV(32, False, 0o120777), uid=BV(32, False, 1000), gid=BV(32, False, 1000)))
        return ("ok", p)
    if op in ("chmod", "chown"):
        from .mirsym.values import bv_bin as _bvb
        o = opts
        if node is None:
            return ("err", None)
        tp = TP.tokenize(ex, st, p)
        under = lambda n: (lambda tn: len(tn) >= len(tp) and all(ex.decide(st, TP.tcomp_eq(a[0], b[0])) for a, b in zip(tp, tn)))(TP.tokenize(ex, st, n["key"]))
        visited = [n for n in ref["nodes"] if (under(n) if o["recursive"] else n is node)]
        targets = []
        for n in visited:
            if n["kind"] == "l":
                if o["follow"]:
                    t = ref_find(ex, st, ref, n["alt"])
                    if t is None or t["kind"] == "d":
                        return ("skip", None)  # followed link to a directory / dangling link: outside the reference
                    targets.append(t)
                    if op == "chmod" and o["what"] in ("ro", "sec"):
                        ref.setdefault("labels", []).append("[symbolic chmod through a followed link]")
                elif op == "chown":
                    targets.append(n)  # without follow chown acts on the link itself
            else:
                targets.append(n)
        ite = lambda c, a, b: BV(32, False, "(ite %s %s %s)" % (c.smt(), a.smt(), b.smt()))
        done = []
        for n in targets:
            if any(n is d for d in done):
                continue
            done.append(n)
            if op == "chown":
                if o["what"] in ("owner", "uid"):
                    n["uid"] = o["vals"][0]
                if o["what"] == "owner":
                    n["gid"] = o["vals"][1]
                if o["what"] == "gid":
                    n["gid"] = o["vals"][0]
                continue
            tb = BV(32, False, 0o40000 if n["kind"] == "d" else 0o100000)
            perm = _bvb("BitAnd", n["mode"], BV(32, False, 0o7777))
            if o["what"] in ("all", "dirs", "files", "both"):
                m = None
                if n["kind"] == "d" and o["what"] in ("all", "dirs", "both"):
                    m = o["vals"][0]
                if n["kind"] == "f" and o["what"] in ("all", "files", "both"):
                    m = o["vals"][1] if o["what"] == "both" else o["vals"][0]
                if m is not None:
                    # an octal value of 0 means "not given": the entry keeps its mode
                    n["mode"] = ite(_bvb("Eq", m, BV(32, False, 0)), n["mode"], _bvb("BitOr", m, tb))
            elif o["what"] == "ro":
                if n["kind"] == "f":
                    n["mode"] = _bvb("BitOr", tb, _bvb("BitAnd", _bvb("BitOr", perm, BV(32, False, 0o444)), BV(32, False, 0o7777 & ~0o333)))
            elif o["what"] == "sec":
                n["mode"] = _bvb("BitOr", tb, _bvb("BitAnd", perm, BV(32, False, 0o7777 & ~0o077)))
        return ("ok", None)
    if op == "copy":
        src, dst = p, paths[1]
        if ex.decide(st, TP.path_eq_text(ex, st, src, dst)):
            return ("ok", None) if node is not None else ("skip", None)  # a missing source onto itself: not determined by the documentation
        if node is None:
            return ("err", None)
        if is_root:
            return ("skip", None)
        if node["kind"] == "l" and (opts or {}).get("follow"):
            # "the file pointed to will be copied not the link": the call behaves as copy(target, dst)
            tnode = ref_find(ex, st, ref, node["alt"])
            if tnode is None or tnode["kind"] != "f":
                return ("skip", None)  # link to a directory / dangling link given as the source: outside the reference
            if ex.decide(st, TP.path_eq_text(ex, st, tnode["key"], dst)):
                return ("skip", None)
            return ref_apply(ex, st, ref, "copy", [tnode["key"], dst], data, opts)
        dn = ref_find(ex, st, ref, dst)
        final = list(dst)
        if dn is not None and dn["kind"] == "d":
            fb = TP.PathBufT(list(dst))
            TP.push_text(ex, st, fb, TP.tokenize(ex, st, src)[-1][0].text)
            final = fb.chars
        ts, tf = TP.tokenize(ex, st, src), TP.tokenize(ex, st, final)
        if len(tf) >= len(ts) and all(ex.decide(st, TP.tcomp_eq(a[0], b[0])) for a, b in zip(ts, tf)):
            return ("skip", None)  # onto itself / into its own subtree: not determined by the documentation
        from .mirsym.values import bv_bin as _bvb
        o = opts or {}
        follow = bool(o.get("follow"))
        sel, om = o.get("sel", "none"), o.get("mode")
        dmode = om if sel in ("all", "dirs") else None   # the chmod option selects directories
        fmode = om if sel in ("all", "files") else None  # ... regular files
        tbits = lambda m, bits: _bvb("BitOr", m, BV(32, False, bits))
        # destination directories are created as needed; a non-directory on the way is an error
        cur = TP.PathBufT([])
        made = []
        spar = ref_find(ex, st, ref, TP.parent_text(ex, st, src))
        for t in tf[:-1]:
            TP.push_text(ex, st, cur, t[0].text)
            n = ref_find(ex, st, ref, cur.chars)
            if n is None:
                pm = dmode if dmode is not None else (node["mode"] if node["kind"] == "d" else spar["mode"])
                made.append(dict(key=list(cur.chars), kind="d", content=None, mode=tbits(pm, 0o40000), uid=BV(32, False, 1000), gid=BV(32, False, 1000), newdir=True,
                                 mode_selected=dmode is not None))
                ref["mode_matters"] = ref.get("mode_matters") or dmode is not None
            elif n["kind"] != "d":
                return ("err", None)
        add = []
        for n in list(ref["nodes"]):
            tn = TP.tokenize(ex, st, n["key"])
            if not (len(tn) >= len(ts) and all(ex.decide(st, TP.tcomp_eq(a[0], b[0])) for a, b in zip(ts, tn))):
                continue
            nb = TP.PathBufT(list(final))
            for t in tn[len(ts):]:
                TP.push_text(ex, st, nb, t[0].text)
            srcn = n
            if n["kind"] == "l" and follow:
                ref["followed_link"] = True
                srcn = ref_find(ex, st, ref, n["alt"])
                if srcn is None or srcn["kind"] != "f":
                    return ("skip", None)  # followed link to a directory / dangling: outside the reference
            old = ref_find(ex, st, ref, nb.chars)
            if old is not None:
                if old["kind"] != srcn["kind"] or srcn["kind"] == "l":
                    return ("skip", None)  # replacing an entry of another kind / a link: not determined by the documentation
                if srcn["kind"] == "f":
                    old["content"] = list(srcn["content"])  # "entries that already existed are kept" (their mode too); a file's content is replaced
                continue
            c = dict(srcn)
            c["key"] = nb.chars
            c["content"] = list(srcn["content"]) if srcn["content"] is not None else None
            if srcn["kind"] == "d":
                c["mode"] = tbits(dmode, 0o40000) if dmode is not None else srcn["mode"]
                ref["mode_matters"] = ref.get("mode_matters") or dmode is not None
            elif srcn["kind"] == "f":
                c["mode"] = tbits(fmode, 0o100000) if fmode is not None else srcn["mode"]
                ref["mode_matters"] = ref.get("mode_matters") or fmode is not None
            else:
                c["mode"] = BV(32, False, 0o120777)
                c["uid"], c["gid"] = BV(32, False, 1000), BV(32, False, 1000)
            add.append(c)
        # directories created on the way down inherit the same rule as copied directories
        ref["nodes"] += made + add
        return ("ok", None)
    if op == "move_p":
        src, dst = p, paths[1]
        if node is None:
            return ("err", "does_not_exist")
        if is_root:
            return ("skip", None)
        dn = ref_find(ex, st, ref, dst)
        final = list(dst)
        if dn is not None and dn["kind"] == "d":
            fb = TP.PathBufT(list(dst))
            TP.push_text(ex, st, fb, TP.tokenize(ex, st, src)[-1][0].text)
            final = fb.chars
        ts, tf = TP.tokenize(ex, st, src), TP.tokenize(ex, st, final)
        if len(tf) >= len(ts) and all(ex.decide(st, TP.tcomp_eq(a[0], b[0])) for a, b in zip(ts, tf)):
            return ("err", None)  # onto itself or into its own subtree
        fpar = TP.parent_text(ex, st, final)
        fpn = ref_find(ex, st, ref, fpar) if fpar is not None else None
        if fpn is None or fpn["kind"] != "d":
            return ("err", None)
        fn_ = ref_find(ex, st, ref, final)
        if fn_ is not None:
            if fn_["kind"] in ("d", "l"):
                return ("skip", None)  # replacing a directory or a link: not determined by the documentation ("replaces destination files")
            ref["nodes"].remove(fn_)
        for n in ref["nodes"]:
            tn = TP.tokenize(ex, st, n["key"])
            if len(tn) >= len(ts) and all(ex.decide(st, TP.tcomp_eq(a[0], b[0])) for a, b in zip(ts, tn)):
                nb = TP.PathBufT(list(final))
                for t in tn[len(ts):]:
                    TP.push_text(ex, st, nb, t[0].text)
                n["key"] = nb.chars
        return ("ok", None)
    return ("skip", None)


def ref_matches(ex, st, ref, snap):
    """B: the Memfs snapshot denotes exactly the reference tree"""
    from .mirsym.values import bv_bin
    if len(ref["nodes"]) != len(snap["entries"]) or len([n for n in ref["nodes"] if n["kind"] == "f"]) != len(snap["files"]):
        return B(False)
    conj = [TP.path_eq_text(ex, st, ref["cwd"], snap["cwd"])]
    for n in ref["nodes"]:
        e = find_key(ex, st, snap["entries"], n["key"])
        if e is None:
            return B(False)
        conj.append(TP.path_eq_text(ex, st, e["path"], n["key"]))
        if n["kind"] == "l":
            conj += [e["link"], TP.path_eq_text(ex, st, e["alt"], n["alt"]), e["dir"] if n["tkind"] == "d" else b_not(e["dir"]),
                     e["file"] if n["tkind"] == "f" else b_not(e["file"]),
                     bv_bin("Eq", e["mode"], n["mode"]), bv_bin("Eq", e["uid"], n["uid"]), bv_bin("Eq", e["gid"], n["gid"])]
            if find_key(ex, st, snap["files"], n["key"]) is not None:
                return B(False)
            continue
        conj += [e["dir"] if n["kind"] == "d" else b_not(e["dir"]), e["file"] if n["kind"] == "f" else b_not(e["file"]), b_not(e["link"]),
                 bv_bin("Eq", e["uid"], n["uid"]), bv_bin("Eq", e["gid"], n["gid"])]
        if n.get("newdir") and not n.get("mode_selected"):
            # a directory created on the way to a copy destination: only its permission bits are unspecified by the documentation
            conj.append(bv_bin("Eq", bv_bin("BitAnd", e["mode"], BV(32, False, 0o170000)), BV(32, False, 0o40000)))
        else:
            conj.append(bv_bin("Eq", e["mode"], n["mode"]))
        if n["kind"] == "d":
            if find_key(ex, st, snap["files"], n["key"]) is not None:
                return B(False)
            kids = ref_children(ex, st, ref, n["key"])
            if e["names"] is None or len(e["names"]) != len(kids):
                return B(False)
            for k in kids:
                kn = TP.tokenize(ex, st, k["key"])[-1][0].text
                conj.append(b_or(*[text_eq(nm, kn) for nm in e["names"]]))
        if n["kind"] == "f":
            f = find_key(ex, st, snap["files"], n["key"])
            if f is None or len(f["data"]) != len(n["content"]):
                return B(False)
            conj += [bv_bin("Eq", a, b) for a, b in zip(f["data"], n["content"])]
    return b_and(*conj)


# ------------------------------------------------------------------------------------------------
# C06 (last sentence): copies and moves do not alias; a copy replaces an existing destination file
# ------------------------------------------------------------------------------------------------
@job("c06_copy_move", ["C06", "C12"], "quick",
     functions=["Memfs::{copy,copy_b,_copy,_clone_file,_clone_entries,_entries,move_p,write_all,append_all,read_all}, Copier::exec, Entries/EntriesIter/EntryIter/MemfsEntryIter "
                "(real MIR; std iterator plumbing modelled: owned list iterators, Box<dyn Iterator> dispatch, collect, chain, sort_by)"],
     bounds="scenarios copy|move (/b -> new path /n, /b -> existing file /a/b, /a -> new dir /n) followed by write_all|append_all of 0..=2 symbolic ASCII bytes to the source or "
            "to the destination, then reading both; from the tree {/, /a, /a/b, /b}")
def c06_copy_move(ctx, prop):
    import itertools
    t0 = time.time()
    run = MemRun(ctx, "c06_copy_move")
    ex, ob, solver = run.ex, run.ob, run.solver
    unit = dict(status="pass", failures=[])
    P = lambda s: BoxRef(M.SStr(T_(s)))
    # (kind, src, dst, file to follow at the source side, same file at the destination side, its content)
    scen = [("copy", "/b", "/n", "/b", "/n", "yz"), ("copy", "/b", "/a/b", "/b", "/a/b", "yz"), ("copy", "/a", "/n", "/a/b", "/n/b", "x"),
            ("copy", "/b", "/a", "/b", "/a/b", "yz"), ("move_p", "/b", "/n", None, "/n", "yz"), ("move_p", "/b", "/a/b", None, "/a/b", "yz"),
            ("move_p", "/a", "/n", None, "/n/b", "x")]
    for (kind, src, dst, sfile, dfile, content), wop, side, n in itertools.product(scen, ("write_all", "append_all"), ("src", "dst"), (0, 1, 2)):
        if side == "src" and sfile is None:
            continue
        sid = "c06cm_%s_%s_%s_%s_%d" % (kind, dst.replace("/", "_"), wop[0], side, n)
        d, cons = sym_text(solver, sid, n, ascii_only=True)
        cons = list(cons) + ["(not (= %s #x00000000))" % x.v for x in d]
        groups = {"data": d}
        wfile = sfile if side == "src" else dfile
        other = dfile if side == "src" else sfile
        calls = [(kind, [P(src), P(dst)]), (wop, [P(wfile), BoxRef(M.SStr(d))]), ("read_all", [P(wfile)])]
        if other is not None:
            calls.append(("read_all", [P(other)]))
        orig = [BV(32, False, ord(c)) for c in content]
        exp_w = (orig + list(d)) if wop == "append_all" else list(d)

        def on_done(st, results, inner, i, kind=kind, src=src, dst=dst, wop=wop, side=side, groups=groups, exp_w=exp_w, orig=orig, other=other, wfile=wfile,
                    content=content):
            cf = lambda extra: text_model(ex, st, groups, extra)
            meta = dict(scenario=(kind, src, dst, wop, wfile, other, content), where="Memfs")
            bad = [r for r in results if r[0] in ("panic", "bound")]
            if bad:
                ob.total += 1
                ob.failures.append(dict(kind="panic" if bad[0][0] == "panic" else "bound", cex=cf([]), desc="C12: copy/move scenario panics/loops: %s" % bad[0][1], **meta))
                return
            for k, (rk, rv) in enumerate(results):
                ob.prove(ex, st, "C06: step %d of %s %s->%s; %s %s succeeds" % (k, kind, src, dst, wop, wfile), B(isinstance(rv, Adt) and rv.variant == 0), cf) or \
                    ob.failures[-1].update(**meta)
            if any(not (isinstance(rv, Adt) and rv.variant == 0) for rk, rv in results):
                return
            ob.prove(ex, st, "C06: after %s %s->%s the written file %s holds what the byte-vector model holds" % (kind, src, dst, wfile),
                     text_eq(results[2][1].fields[0].chars, exp_w), cf) or ob.failures[-1].update(**meta)
            if other is not None:
                ob.prove(ex, st, "C06: a copied file does not alias its source: writing %s leaves %s unchanged" % (wfile, other),
                         text_eq(results[3][1].fields[0].chars, orig), cf) or ob.failures[-1].update(**meta)
            if len(ob.samples) < 4:
                ob.samples.append(dict(scenario=[kind, src, dst, wop, wfile], data=cf([])))

        run.explore(TREE1, "/", calls, cons, on_done)
    seen = set()
    for f in ob.failures:
        if f["kind"] == "bound" or f["cex"] is None:
            unit["status"], unit["why"] = "inconclusive", f["desc"]
            continue
        key = f["scenario"]
        if key in seen or len(seen) >= 4:
            continue
        seen.add(key)
        kind, src, dst, wop, wfile, other, content = f["scenario"]
        data = f["cex"].get("data", "")
        exp_w = (content + data) if wop == "append_all" else data
        src_rs = MEM_REPLAY_PRELUDE + '''
#[test]
fn replay_copy_move() {
    // %s
    let v = fixture();
    v.%s(%s, %s).unwrap();
    v.%s(%s, %s).unwrap();
    assert_eq!(v.read_all(%s).unwrap(), %s, "C06: the written file");
    %s
}
''' % (f["desc"], kind, rs_str(src), rs_str(dst), wop, rs_str(wfile), rs_str(data), rs_str(wfile), rs_str(exp_w),
       ('assert_eq!(v.read_all(%s).unwrap(), %s, "C06: the other side of the copy changed");' % (rs_str(other), rs_str(content))) if other else "")
        r = native_test(src_rs, ctx.logdir, "c06cm_%d" % len(seen))
        reproduced = r["ran"] and r["failed"] > 0
        rec = dict(kind=f["kind"], desc='"%s" data=%r' % (f["desc"], data), where="Memfs", reproduced=reproduced, replay_outcome=r["out"][-400:])
        if reproduced:
            rec["replay"] = save_replay(prop, "c06_copy_move", src_rs, f["desc"], dict(failed=r["failed"]))
        unit["failures"].append(rec)
        unit["status"] = "violation"
    return finish(unit, ex, solver, ob, t0, dict(models_used="Memfs and the Entries traversal executed from MIR; byte-vector reference"))


# ------------------------------------------------------------------------------------------------
# C08: directory traversal (Entries / EntriesIter / EntryIter / MemfsEntryIter) on Memfs
# ------------------------------------------------------------------------------------------------
C08_FUNCS = ["Memfs::{entries,_entries,_entry_iter,_clone_entries}, Entries::{dirs,files,follow,min_depth,max_depth,sort_by_name,dirs_first,files_first,contents_first,sort,into_iter}, "
             "EntriesIter::{next,process}, EntryIter::{next,cache,sort,dirs_first,files_first,_sort,_split}, MemfsEntryIter::{new,next}, VfsEntry/MemfsEntry accessors (real MIR; "
             "std plumbing modelled: owned list iterators, Box<dyn Iterator> dispatch, by-ref collect, chain, slice sort_by driven by the real comparator closure)"]


def mk_tree_sym(shape, names, order):
    """shape: nested list of (name index, 'd' [children] | 'f');  names: {index: [char BV]};  order: 0 = listing in the given
    order, 1 = reversed (HashSet iteration order is arbitrary).  Returns (memfs, inner, flat) with flat = [(key chars, kind, depth, parent key)]"""
    entries, files, flat = [], [], []
    link_kinds = {}

    def kinds_of(node, path):
        idx, kind, kids = node
        here = path + ([idx] if idx is not None else [])
        link_kinds[tuple(here)] = kind
        if kind == "d":
            for k in kids:
                kinds_of(k, here)
    kinds_of(shape, [])

    def add(node, parent_key, depth):
        idx, kind, kids = node
        key = T_("/") if idx is None else (list(parent_key) + ([] if len(parent_key) == 1 else T_("/")) + list(names[idx]))
        flat.append(dict(key=key, kind=kind, depth=depth, parent=parent_key, name=None if idx is None else names[idx]))
        if kind == "l":
            # kids = list of name indices spelling the target from the root
            tkey = T_("/")
            for ti in kids:
                tkey = list(tkey) + ([] if len(tkey) == 1 else T_("/")) + list(names[ti])
            up = T_("..") if depth == 2 else []
            rel = (up if up else []) + ((T_("/") if up and kids else []) + [c for ti_n, ti in enumerate(kids) for c in ((T_("/") if ti_n else []) + list(names[ti]))])
            tk = "d" if not kids else link_kinds[tuple(kids)]
            flat[-1].update(target=tkey, tkind=tk)
            e = Adt("MemfsEntry", None, None, [TP.PathBufT(list(key)), TP.PathBufT(list(tkey)), TP.PathBufT(list(rel)), B(tk == "d"), B(tk == "f"), B(True),
                                               BV(32, False, 0o120777), BV(32, False, 1000), BV(32, False, 1000), B(False), B(False),
                                               M.opt_some(None, MM.SetM([])) if tk == "d" else M.opt_none(None)])
            entries.append((list(key), BoxRef(e)))
            return
        if kind == "d":
            ch = [names[k[0]] for k in kids]
            if order:
                ch = ch[::-1]
            e = Adt("MemfsEntry", None, None, [TP.PathBufT(list(key)), TP.PathBufT([]), TP.PathBufT([]), B(True), B(False), B(False), BV(32, False, 0o40755),
                                               BV(32, False, 1000), BV(32, False, 1000), B(False), B(False), M.opt_some(None, MM.SetM([list(c) for c in ch]))])
            entries.append((list(key), BoxRef(e)))
            for k in kids:
                add(k, key, depth + 1)
        else:
            e = Adt("MemfsEntry", None, None, [TP.PathBufT(list(key)), TP.PathBufT([]), TP.PathBufT([]), B(False), B(True), B(False), BV(32, False, 0o100644),
                                               BV(32, False, 1000), BV(32, False, 1000), B(False), B(False), M.opt_none(None)])
            entries.append((list(key), BoxRef(e)))
            files.append((list(key), BoxRef(Adt("MemfsFile", None, None, [BV(64, False, 0), M.VecM([]), M.opt_none(None), M.opt_none(None)]))))
    add(shape, None, 0)
    inner = BoxRef(Adt("MemfsInner", None, None, [TP.PathBufT(T_("/")), TP.PathBufT(T_("/")), MM.MapM(entries), MM.MapM(files)]))
    memfs = Adt("Memfs", None, None, [Adt("Arc", None, None, [BoxRef(Adt("RwLock", None, None, [inner, MM.LockM()]))])])
    return memfs, inner, flat


# / { 0: dir { 3: file, 4: dir {} }, 1: file, 2: dir {} }
C08_SHAPE = (None, "d", [(0, "d", [(3, "f", []), (4, "d", [])]), (1, "f", []), (2, "d", [])])
# / { 0: dir { 2: dir { 3: file } }, 1: file }
C08_SHAPE_DEEP = (None, "d", [(0, "d", [(2, "d", [(3, "f", [])])]), (1, "f", [])])
# / { 0: dir { 3: file }, 1: link -> /0, 2: file }
C08_SHAPE_LINK = (None, "d", [(0, "d", [(3, "f", [])]), (1, "l", [0]), (2, "f", [])])
# / { 0: dir { 1: link -> / } }   (a cycle when links are followed)
C08_SHAPE_LOOP = (None, "d", [(0, "d", [(1, "l", [])])])
# / { 0: file, 1: link -> /0 }
C08_SHAPE_FLINK = (None, "d", [(0, "f", []), (1, "l", [0])])
# / { 0: dir { 1: link -> /0 } }   (a link to its own parent directory)
C08_SHAPE_LOOP2 = (None, "d", [(0, "d", [(1, "l", [0])])])


def c08_expected(ex, st, flat, filt, sort, contents_first, emin, emax, follow=False):
    """reference traversal: returns (sequence, exact?)  - exact only when siblings are sorted"""
    from .mirsym.values import bv_bin
    by_parent = {}
    for n in flat:
        by_parent.setdefault(tuple(id(c) for c in (n["parent"] or [])) if n["parent"] is not None else None, []).append(n)

    def kids_of(n):
        return [k for k in flat if k["parent"] is not None and len(k["parent"]) == len(n["key"]) and k["parent"] is n["key"]]

    def less(a, b):
        for c, d in zip(a["name"], b["name"]):
            if ex.decide(st, bv_bin("Lt", c, d)):
                return True
            if ex.decide(st, bv_bin("Lt", d, c)):
                return False
        return len(a["name"]) < len(b["name"])

    def sort_names(ks):
        out = []
        for k in ks:
            i = len(out)
            while i > 0 and less(k, out[i - 1]):
                i -= 1
            out.insert(i, k)
        return out

    def order(ks):
        if sort == "none":
            return ks
        if sort == "name":
            return sort_names(ks)
        isd = lambda k: k["kind"] == "d" or (k["kind"] == "l" and k.get("tkind") == "d")  # Entry::is_dir: a link to a directory counts
        d, f = sort_names([k for k in ks if isd(k)]), sort_names([k for k in ks if not isd(k)])
        return d + f if sort == "dirs_first" else f + d

    seq = []

    def find(key):
        return [n for n in flat if ex.decide(st, TP.path_eq_text(ex, st, n["key"], key))][0]

    def visit(n, depth, open_dirs):
        isdir = n["kind"] == "d" or (n["kind"] == "l" and n["tkind"] == "d")
        as_key = n["target"] if (n["kind"] == "l" and follow) else n["key"]
        if n["kind"] == "l" and follow and isdir and any(ex.decide(st, TP.path_eq_text(ex, st, k, n["target"])) for k in open_dirs):
            seq.append(dict(err="LinkLooping"))
            return
        passes = depth >= emin and (filt == "none" or (filt == "dirs") == isdir)
        descend = isdir and (n["kind"] == "d" or follow) and depth < emax
        item = dict(n, key=as_key)
        if passes and not (contents_first and isdir):
            seq.append(item)
        if descend:
            tgt = n if n["kind"] == "d" else find(n["target"])
            for k in order(kids_of(tgt)):
                visit(k, depth + 1, open_dirs + [tgt["key"]])
        if passes and contents_first and isdir:
            seq.append(item)
    visit(flat[0], 0, [])
    return seq


def run_entries(ctx, prop, tag, shapes, sorts, filters=("none", "dirs", "files"), cfs=(False, True), dmax=3, follows=(False,), root_idx=None, derived=None):
    """root_idx: traverse the directory with that name index instead of '/';  derived: {k: b} makes name k = name b followed by one own char"""
    from .mirsym.engine import State
    from .mirsym.values import bv_bin
    t0 = time.time()
    run = MemRun(ctx, tag, visits=600)
    ex, ob, solver = run.ex, run.ob, run.solver
    unit = dict(status="pass", failures=[])
    R = lambda n: ex.auto.resolve(n) or (_ for _ in ()).throw(Unsupported("%s not found in the MIR dump" % n))
    f_entries = run.fn("entries")
    fns = dict(dirs=R("Entries::dirs"), files=R("Entries::files"), min_depth=R("Entries::min_depth"), max_depth=R("Entries::max_depth"),
               name=R("Entries::sort_by_name"), dirs_first=R("Entries::dirs_first"), files_first=R("Entries::files_first"), follow=R("Entries::follow"),
               contents_first=R("Entries::contents_first"), into_iter=R("<Entries as IntoIterator>::into_iter"), next=R("<EntriesIter as Iterator>::next"))
    import itertools
    for (si, (shape, nnames)), order, filt, sort, cf_, fol in itertools.product(enumerate(shapes), (0, 1), filters, sorts, cfs, follows):
        sid = "%s_s%d_o%d_%s_%s_%d_%d" % (tag, si, order, filt, sort, int(cf_), int(fol))
        names, cons, groups = {}, [], {}
        for k in range(nnames):
            c, cc = sym_text(solver, "%s_n%d" % (sid, k), 1, ascii_only=True)
            cons += cc + ["(bvuge %s #x00000030)" % c[0].v, "(bvule %s #x0000007a)" % c[0].v]
            names[k] = c
            groups["name%d" % k] = c
        for k, b in (derived or {}).items():
            names[k] = list(names[b]) + list(names[k])  # e.g. a sibling whose name has the root directory's name as a string prefix
            groups["name%d" % k] = names[k]

        def sib(node):  # sibling names are distinct
            if node[1] != "d":
                return
            ks = [k[0] for k in node[2]]
            for i in range(len(ks)):
                for j in range(i + 1, len(ks)):
                    if len(names[ks[i]]) == len(names[ks[j]]):  # names of different lengths are distinct anyway
                        cons.append("(not (= %s %s))" % (names[ks[i]][-1].v, names[ks[j]][-1].v))
            for k in node[2]:
                sib(k)
        sib(shape)
        for nm in ("dmin", "dmax"):
            solver.declare("%s_%s" % (sid, nm), "(_ BitVec 64)")
            cons.append("(or (bvule %s_%s (_ bv%d 64)) (= %s_%s #xffffffffffffffff))" % (sid, nm, dmax, sid, nm))
        dmin_v, dmax_v = BV(64, False, "%s_dmin" % sid), BV(64, False, "%s_dmax" % sid)
        memfs, inner, flat = mk_tree_sym(shape, names, order)
        root_text = T_("/") if root_idx is None else T_("/") + list(names[root_idx])
        if root_idx is not None:
            # the reference walks from the chosen directory: depths are relative to it, entries outside are reachable through links only
            rn = [n for n in flat if n["name"] is names[root_idx] and n["depth"] == 1][0]
            flat = [rn] + [n for n in flat if n is not rn]
            for n in flat:
                n["depth"] = n["depth"] - 1 if n is not rn else 0
        steps = ["entries", "min_depth", "max_depth"] + ([filt] if filt != "none" else []) + ([sort] if sort != "none" else []) + \
                (["follow"] if fol else []) + (["contents_first"] if cf_ else []) + ["into_iter"]
        desc_opts = "filter=%s sort=%s contents_first=%s follow=%s" % (filt, sort, cf_, fol)
        meta = dict(opts=dict(filter=filt, sort=sort, contents_first=cf_, follow=fol, listing_order=order, shape=si, root=root_idx), where="EntriesIter")

        def mk_cex(st, groups=groups, dmin_v=dmin_v, dmax_v=dmax_v):
            def cex(extra):
                m = text_model(ex, st, groups, extra) or {}
                r, mod = ex.solver.check(st.pc + extra, want_model=[dmin_v.v, dmax_v.v])
                if r == "sat":
                    m["min_depth"], m["max_depth"] = parse_smt_int(mod[dmin_v.v]), parse_smt_int(mod[dmax_v.v])
                return m
            return cex

        def finish_path(st, cex, flat=flat, filt=filt, sort=sort, cf_=cf_, fol=fol, dmin_v=dmin_v, dmax_v=dmax_v, meta=meta, desc_opts=desc_opts):
            got = st.meta["got"]
            UMAX = (1 << 64) - 1

            def conc(v):
                for k in list(range(dmax + 1)) + [UMAX]:
                    if ex.decide(st, bv_bin("Eq", v, BV(64, False, k))):
                        return k
                raise Unsupported("depth outside the bound")
            m, Mx = conc(dmin_v), conc(dmax_v)
            emin, emax = m, max(Mx, m)  # min_depth(m) then max_depth(M): max is raised to min
            exp = c08_expected(ex, st, flat, filt, sort, cf_, emin, emax, fol)
            same_item = lambda g, n: (g.get("err") == n.get("err")) if ("err" in g or "err" in n) else ex.decide(st, TP.path_eq_text(ex, st, g["path"], n["key"]))
            used = [False] * len(got)
            ok = len(got) == len(exp)
            for n in exp:
                hit = [j for j, g in enumerate(got) if not used[j] and same_item(g, n)]
                if not hit:
                    ok = False
                    break
                used[hit[0]] = True
            show = lambda: [g.get("err") or "".join(chr(c.v) if c.concrete else "?" for c in g["path"]) for g in got]
            ob.prove(ex, st, "C08: the traversal terminates and yields exactly the entries the options denote, each as often as denoted (%s)" % desc_opts,
                     B(ok and all(used)), cex) or ob.failures[-1].update(got=show(), **meta)
            if not (ok and all(used)):
                return
            if not fol:
                pos = lambda key: [j for j, g in enumerate(got) if "path" in g and ex.decide(st, TP.path_eq_text(ex, st, g["path"], key))][0]
                okp = True
                for n in exp:
                    par = [p for p in exp if n.get("parent") is p["key"]]
                    if par:
                        okp = okp and ((pos(par[0]["key"]) > pos(n["key"])) if cf_ else (pos(par[0]["key"]) < pos(n["key"])))
                ob.prove(ex, st, "C08: parents come before their contents (after them with contents_first) (%s)" % desc_opts, B(okp), cex) or \
                    ob.failures[-1].update(**meta)
                if sort != "none":
                    same = all(same_item(g, n) for g, n in zip(got, exp))
                    ob.prove(ex, st, "C08: sorted traversal yields siblings in name order%s, depth first (%s)" % (
                        " grouped by kind" if sort != "name" else "", desc_opts), B(same), cex) or ob.failures[-1].update(got=show(), **meta)
            if len(ob.samples) < 4:
                ob.samples.append(dict(options=desc_opts, min_depth=m, max_depth=Mx, yielded=len(got), names=cex([])))

        def on_path(st, steps=steps, flat=flat, meta=meta, dmin_v=dmin_v, dmax_v=dmax_v, mk_cex=mk_cex, finish_path=finish_path):
            i = st.meta["i"]
            cex = mk_cex(st)
            if st.panic or st.bound_hit:
                ob.total += 1
                ob.failures.append(dict(kind="panic" if st.panic else "bound", cex=cex([]), desc="C12: traversal panics/loops: %s" % (st.panic or st.bound_hit), **meta))
                return
            cur = st.retval if i >= 0 else None
            if i >= 0 and i < len(steps) and steps[i] == "entries":
                if not (isinstance(cur, Adt) and cur.variant == 0):
                    ob.total += 1
                    ob.failures.append(dict(kind="functional", cex=cex([]), desc="C08: entries('/') fails", **meta))
                    return
                cur = cur.fields[0]
            i += 1
            if i < len(steps):
                s = steps[i]
                if s == "entries":
                    st2 = ex.start(f_entries, [BoxRef(st.meta["memfs"]), BoxRef(M.SStr(list(root_text)))])
                elif s == "min_depth":
                    st2 = ex.start(fns[s], [cur, dmin_v])
                elif s == "max_depth":
                    st2 = ex.start(fns[s], [cur, dmax_v])
                elif s == "follow":
                    st2 = ex.start(fns[s], [cur, B(True)])
                else:
                    st2 = ex.start(fns[s], [cur])
                st2.pc, st2.meta = list(st.pc), dict(st.meta)
                st2.meta["i"] = i
                return [st2]
            if i == len(steps):
                st.meta["iter"] = BoxRef(cur)
                st.meta["got"] = []
            else:
                if cur.variant == 0:
                    return finish_path(st, cex)
                item = cur.fields[0]
                if isinstance(item, Adt) and item.variant == 0:
                    ent = item.fields[0]
                    me = ent.fields[0] if ent.ty == "VfsEntry" else ent
                    me = ex.deref(st, me) if isinstance(me, (Ref, BoxRef)) else me
                    st.meta["got"] = st.meta["got"] + [dict(path=list(me.fields[0].chars), dir=me.fields[3])]
                else:
                    e = item.fields[0] if isinstance(item, Adt) and item.fields else item
                    nm = None
                    while isinstance(e, Adt):
                        nm = e.vname or nm
                        e = e.fields[0] if e.fields and isinstance(e.fields[0], Adt) else None
                    st.meta["got"] = st.meta["got"] + [dict(err={"link_looping": "LinkLooping"}.get(nm, nm or "error"))]
                if len(st.meta["got"]) > 3 * len(flat) + 3:
                    ob.total += 1
                    ob.failures.append(dict(kind="functional", cex=cex([]), desc="C08: the traversal yields more entries than can exist (does not terminate?)", **meta))
                    return
            st2 = ex.start(fns["next"], [st.meta["iter"]])
            st2.pc, st2.meta = list(st.pc), dict(st.meta)
            st2.meta["i"] = i
            return [st2]

        st0 = State()
        st0.done = True
        st0.meta = dict(i=-1, memfs=memfs, inner=inner)
        st0.pc = list(cons)
        ex.explore(st0, on_path)
    seen = set()
    for f in ob.failures:
        if f["kind"] == "bound" or not f.get("cex"):
            unit["status"], unit["why"] = "inconclusive", f["desc"]
            continue
        key = (re.sub(r" \(filter.*", "", f["desc"]), tuple(sorted(f["opts"].items())))
        if key in seen or len(seen) >= 6:
            continue
        seen.add(key)
        src = c08_replay_src(f, shapes)
        r = native_test(src, ctx.logdir, "%s_%d" % (tag, len(seen)))
        reproduced = r["ran"] and r["failed"] > 0
        rec = dict(kind=f["kind"], desc='"%s" opts=%r cex=%r' % (f["desc"], f["opts"], f["cex"]), where="EntriesIter", reproduced=reproduced, replay_outcome=r["out"][-600:])
        if reproduced:
            rec["replay"] = save_replay(prop, tag, src, f["desc"], dict(failed=r["failed"]))
        unit["failures"].append(rec)
        unit["status"] = "violation"
    return finish(unit, ex, solver, ob, t0, dict(models_used="Memfs and the traversal executed from MIR; HashSet iteration order: the listing order and its reverse; reference traversal in Python"))


def c08_replay_src(f, shapes):
    o, c = f["opts"], f["cex"]
    shape = shapes[o["shape"]][0]
    names = {int(k[4:]): v for k, v in c.items() if k.startswith("name")}
    mk, links = [], []

    def add(node, parent):
        idx, kind, kids = node
        p = "/" if idx is None else (parent.rstrip("/") + "/" + names[idx])
        if kind == "l":
            links.append('    v.symlink(%s, %s).unwrap();' % (rs_str(p), rs_str("/" + "/".join(names[t] for t in kids))))
            return
        if idx is not None:
            mk.append('    v.%s(%s).unwrap();' % ("mkdir_p" if kind == "d" else "mkfile", rs_str(p)))
        for k in (kids if not o["listing_order"] else kids[::-1]):
            add(k, p)
    add(shape, "")
    dep = lambda k: "usize::MAX" if c.get(k, 0) > 1000 else str(c.get(k, 0))
    rootpath = "/" if o.get("root") is None else "/" + names[o["root"]]
    chain = ".min_depth(%s).max_depth(%s)" % (dep("min_depth"), dep("max_depth"))
    if o["filter"] != "none":
        chain += ".%s()" % o["filter"]
    if o["sort"] != "none":
        chain += ".%s()" % ("sort_by_name" if o["sort"] == "name" else o["sort"])
    if o.get("follow"):
        chain += ".follow(true)"
    if o["contents_first"]:
        chain += ".contents_first()"
    return ('''use rivia::prelude::*;

// reference traversal over a plain tree (std only)
#[derive(Clone)]
struct Node { path: String, dir: bool, link: Option<String>, kids: Vec<String> }
fn snapshot(v: &Memfs) -> std::collections::BTreeMap<String, Node> {
    let mut m = std::collections::BTreeMap::new();
    let mut todo = vec!["/".to_string()];
    while let Some(p) = todo.pop() {
        let link = if v.is_symlink(&p) { Some(v.readlink_abs(&p).unwrap().to_str().unwrap().to_string()) } else { None };
        let dir = link.is_none() && v.is_dir(&p);
        let mut kids = vec![];
        if dir { for k in v.paths(&p).unwrap() { kids.push(k.to_str().unwrap().to_string()); todo.push(k.to_str().unwrap().to_string()); } }
        m.insert(p.clone(), Node { path: p, dir, link, kids });
    }
    m
}
struct Opt { emin: usize, emax: usize, filt: &'static str, sort: &'static str, cf: bool, follow: bool }
fn visit(m: &std::collections::BTreeMap<String, Node>, n: &Node, depth: usize, o: &Opt, open: &mut Vec<String>, out: &mut Vec<String>) {
    let target = n.link.as_ref().and_then(|t| m.get(t));
    let isdir = n.dir || target.map(|t| t.dir).unwrap_or(false);
    let shown = if n.link.is_some() && o.follow { n.link.clone().unwrap() } else { n.path.clone() };
    if n.link.is_some() && o.follow && isdir && open.contains(n.link.as_ref().unwrap()) { out.push("LinkLooping".to_string()); return; }
    let passes = depth >= o.emin && (o.filt == "none" || (o.filt == "dirs") == isdir);
    if passes && !(o.cf && isdir) { out.push(shown.clone()); }
    if isdir && (n.link.is_none() || o.follow) && depth < o.emax {
        let t = if n.link.is_some() { target.unwrap() } else { n };
        let mut ks: Vec<&Node> = t.kids.iter().map(|k| &m[k]).collect();
        let name = |k: &Node| -> String { let p = if k.link.is_some() && o.follow { k.link.clone().unwrap() } else { k.path.clone() }; p.rsplit('/').next().unwrap().to_string() };
        let kdir = |k: &Node| -> bool { k.dir || k.link.as_ref().and_then(|t| m.get(t)).map(|t| t.dir).unwrap_or(false) };
        ks.sort_by(|a, b| name(a).cmp(&name(b)));
        if o.sort == "dirs_first" { ks.sort_by_key(|k| !kdir(k)); }
        if o.sort == "files_first" { ks.sort_by_key(|k| kdir(k)); }
        open.push(t.path.clone());
        for k in ks { visit(m, k, depth + 1, o, open, out); }
        open.pop();
    }
    if passes && o.cf && isdir { out.push(shown); }
}

#[test]
fn replay_entries() {
    // %s
    let v = std::sync::Arc::new(Memfs::new());
%s
%s
    let (mn, mx): (usize, usize) = (%s, %s);
    let (tx, rx) = std::sync::mpsc::channel();
    let v2 = v.clone();
    std::thread::spawn(move || {
        let got: Vec<String> = v2.entries(ROOTPATH).unwrap()%s.into_iter().take(200)
            .map(|e| match e { Ok(x) => x.path().to_str().unwrap().to_string(), Err(e) => if e.to_string().contains("ink looping") { "LinkLooping".to_string() } else { format!("error: {}", e) } }).collect();
        let _ = tx.send(got);
    });
    let got = rx.recv_timeout(std::time::Duration::from_secs(20)).expect("C08: the traversal does not terminate");
    assert!(got.len() < 200, "C08: the traversal does not terminate: {:?}", &got[..12]);
    let o = Opt { emin: mn, emax: std::cmp::max(mn, mx), filt: %s, sort: %s, cf: %s, follow: %s };
    let m = snapshot(&v);
    let mut exp = vec![];
    visit(&m, &m[ROOTPATH], 0, &o, &mut vec![], &mut exp);
    let (mut a, mut b) = (got.clone(), exp.clone());
    a.sort(); b.sort();
    assert_eq!(a, b, "C08: yielded multiset differs from what the options denote (got {:?})", got);
    if !o.follow {
        for (i, p) in got.iter().enumerate() {
            if let Some(par) = std::path::Path::new(p).parent().map(|x| x.to_str().unwrap().to_string()) {
                if let Some(j) = got.iter().position(|x| *x == par) { assert!(if o.cf { j > i } else { j < i }, "C08: parent/content order of {} in {:?}", p, got); }
            }
        }
        if o.sort != "none" { assert_eq!(got, exp, "C08: sorted traversal order"); }
    }
}
''' % (f["desc"], "\n".join(mk), "\n".join(links), dep("min_depth"), dep("max_depth"), chain, rs_str(o["filter"]), rs_str(o["sort"]),
       "true" if o["contents_first"] else "false", "true" if o.get("follow") else "false")).replace("ROOTPATH", rs_str(rootpath))


def _mk_c08(name, tier, shapes, sorts, **kw):
    @job(name, ["C08", "C12"], tier, functions=C08_FUNCS,
         bounds="Memfs only; tree shapes %s with every name one symbolic ASCII char in '0'..='z' (siblings distinct), directory listings in the given and in the reversed order; "
                "options: filter in %s x sort in %s x contents_first in {false,true}, min_depth and max_depth symbolic in 0..=%d or usize::MAX; no links, follow=false" % (
                    "{/{d{f,d},f,d}}" if shapes[0][0] is C08_SHAPE else "{/{d{d{f}},f}}", list(kw.get("filters", ("none", "dirs", "files"))), list(sorts), kw.get("dmax", 3)))
    def f(ctx, prop):
        return run_entries(ctx, prop, name, shapes, sorts, **kw)
    return f



# / { 0: dir { 2: link -> /1 }, 1: dir { 3: file } }  with name1 = name0 + one char ("/p" and "/pq"); the traversal starts at /<name0>
C08_SHAPE_PREFIX = (None, "d", [(0, "d", [(2, "l", [1])]), (1, "d", [(3, "f", [])])])


@job("c08_links_subroot", ["C08", "C12"], "quick", functions=C08_FUNCS + ["Memfs::_clone_entries (link targets outside the traversed branch)"],
     bounds="Memfs only; tree {/{p{link->/pq}, pq{f}}} where the sibling's name has the traversed directory's name as a string prefix (names symbolic), traversal of /p; "
            "follow in {false,true} x sort in {none,name} x contents_first in {false,true}, min/max depth symbolic in 0..=3 or usize::MAX")
def c08_links_subroot(ctx, prop):
    return run_entries(ctx, prop, "c08_links_subroot", [(C08_SHAPE_PREFIX, 4)], ("none", "name"), filters=("none",), dmax=3, follows=(False, True), root_idx=0, derived={1: 0})


C08_LINK_SHAPES = {"dlink": (C08_SHAPE_LINK, 4, "{/{d{f}, link->d, f}}"), "loop": (C08_SHAPE_LOOP, 2, "{/{d{link->/}}} (a cycle through the grandparent)"),
                   "flink": (C08_SHAPE_FLINK, 2, "{/{f, link->f}}"), "loop2": (C08_SHAPE_LOOP2, 2, "{/{d{link->d}}} (a link to its own directory)")}


def _mk_c08_links(name, tier, sorts, dmax, shape):
    sh, nn, txt = C08_LINK_SHAPES[shape]

    @job(name, ["C08", "C12"], tier, functions=C08_FUNCS + ["MemfsEntry::follow (path/alt swap), link-loop detection in EntriesIter::process"],
         bounds="Memfs only; tree %s with symbolic one-char names, both listing orders; follow in {false,true} x sort in %s x "
                "contents_first in {false,true}, no kind filter, min_depth/max_depth symbolic in 0..=%d or usize::MAX; with follow only the multiset of yielded paths/errors is compared" % (
                    txt, list(sorts), dmax))
    def f(ctx, prop):
        return run_entries(ctx, prop, name, [(sh, nn)], sorts, filters=("none",), dmax=dmax, follows=(False, True))
    return f


for _sh in C08_LINK_SHAPES:
    _mk_c08_links("c08_links_%s" % _sh, "quick", ("none", "name"), 3, _sh)
    _mk_c08_links("c08_links_grouped_%s" % _sh, "quick", ("dirs_first", "files_first"), 2, _sh)
    _mk_c08_links("c08_links_grouped3_%s" % _sh, "thorough", ("dirs_first", "files_first"), 3, _sh)


for _s in ("none", "name", "dirs_first", "files_first"):
    for _f in ("none", "dirs", "files"):
        _mk_c08("c08_entries_%s_%s" % (_s, _f), "quick", [(C08_SHAPE, 5)], (_s,), filters=(_f,), dmax=2)
        _mk_c08("c08_entries_deep_%s_%s" % (_s, _f), "thorough", [(C08_SHAPE_DEEP, 4)], (_s,), filters=(_f,), dmax=4)


@job("c08_wrappers", ["C08", "C12"], "quick",
     functions=["Memfs::{paths,dirs,files,all_paths,all_dirs,all_files,is_dir} on top of the traversal (real MIR)"],
     bounds="Memfs only; tree {/{d{f,d},f,d}} with symbolic one-char names (siblings distinct), both listing orders; argument '/' and the first sub-directory; no links")
def c08_wrappers(ctx, prop):
    from .mirsym.values import bv_bin
    t0 = time.time()
    run = MemRun(ctx, "c08_wrappers", visits=600)
    ex, ob, solver = run.ex, run.ob, run.solver
    unit = dict(status="pass", failures=[])
    for order in (0, 1):
        for arg_i in (0, 1):
            sid = "c08w_%d_%d" % (order, arg_i)
            names, cons, groups = {}, [], {}
            for k in range(5):
                c, cc = sym_text(solver, "%s_n%d" % (sid, k), 1, ascii_only=True)
                cons += cc + ["(bvuge %s #x00000030)" % c[0].v, "(bvule %s #x0000007a)" % c[0].v]
                names[k] = c
                groups["name%d" % k] = c
            for a, b in ((0, 1), (0, 2), (1, 2), (3, 4)):
                cons.append("(not (= %s %s))" % (names[a][0].v, names[b][0].v))
            memfs, inner, flat = mk_tree_sym(C08_SHAPE, names, order)
            arg = T_("/") if arg_i == 0 else T_("/") + list(names[0])
            root = [n for n in flat if n["key"] is (flat[0]["key"] if arg_i == 0 else [m for m in flat if m["name"] is names[0]][0]["key"])][0]
            meths = ["paths", "dirs", "files", "all_paths", "all_dirs", "all_files"]
            calls = [(m, [BoxRef(M.SStr(list(arg)))]) for m in meths]

            def on_done(st, results, inner_, i, flat=flat, root=root, groups=groups, order=order, arg_i=arg_i, meths=meths):
                cf = lambda extra: text_model(ex, st, groups, extra)
                meta = dict(opts=dict(listing_order=order, arg=arg_i), where="Memfs")
                bad = [r for r in results if r[0] in ("panic", "bound")]
                if bad:
                    ob.total += 1
                    ob.failures.append(dict(kind="panic" if bad[0][0] == "panic" else "bound", cex=cf([]), desc="C12: listing wrapper panics/loops: %s" % bad[0][1], **meta))
                    return
                for m, (rk, rv) in zip(meths, results):
                    if not (isinstance(rv, Adt) and rv.variant == 0):
                        ob.total += 1
                        ob.failures.append(dict(kind="functional", cex=cf([]), desc="C08: %s fails on a directory" % m, **meta))
                        continue
                    got = [list(TP.text_of(ex, st, x)) if hasattr(TP, "text_of") else list(M._obj(ex, st, x).chars) for x in M._obj(ex, st, rv.fields[0]).items]
                    filt = "dirs" if m.endswith("dirs") else "files" if m.endswith("files") else "none"
                    sub = [dict(n, depth=n["depth"] - root["depth"]) for n in flat]
                    # reference: the sorted traversal below the argument, argument excluded (depth >= 1), one level unless all_*
                    exp = c08_expected_from(ex, st, sub, root, filt, 1, (1 << 64) if m.startswith("all_") else 1)
                    same = len(got) == len(exp) and all(ex.decide(st, TP.path_eq_text(ex, st, g, n["key"])) for g, n in zip(got, exp))
                    ob.prove(ex, st, "C08: %s returns the absolute, distinct, name-sorted paths below the argument that its name denotes" % m, B(same), cf) or \
                        ob.failures[-1].update(method=m, got=["".join(chr(c.v) if c.concrete else "?" for c in g) for g in got], **meta)
                if len(ob.samples) < 3:
                    ob.samples.append(dict(arg=arg_i, names=cf([])))

            run.explore_value(memfs, inner, calls, cons, on_done)
    seen = set()
    for f in ob.failures:
        if f["kind"] == "bound" or not f.get("cex"):
            unit["status"], unit["why"] = "inconclusive", f["desc"]
            continue
        key = (f["desc"], tuple(sorted(f["opts"].items())))
        if key in seen or len(seen) >= 4:
            continue
        seen.add(key)
        c, o = f["cex"], f["opts"]
        nm = {int(k[4:]): v for k, v in c.items() if k.startswith("name")}
        mk = ['v.mkdir_p("/%s/%s").unwrap();' % (nm[0], nm[4]), 'v.mkfile("/%s/%s").unwrap();' % (nm[0], nm[3]), 'v.mkfile("/%s").unwrap();' % nm[1], 'v.mkdir_p("/%s").unwrap();' % nm[2]]
        if o["listing_order"]:
            mk = mk[::-1]
        src = '''use rivia::prelude::*;
fn walk(v: &Memfs, p: &std::path::Path, all: bool, out: &mut Vec<std::path::PathBuf>) {
    let mut kids: Vec<std::path::PathBuf> = v.entries(p).unwrap().min_depth(1).max_depth(1).into_iter().map(|e| e.unwrap().path_buf()).collect();
    kids.sort();
    for k in kids { out.push(k.clone()); if all && v.is_dir(&k) { walk(v, &k, all, out); } }
}
#[test]
fn replay_wrappers() {
    // %s
    let v = Memfs::new();
    %s
    let arg = std::path::PathBuf::from(%s);
    for all in [false, true] {
        let mut exp = vec![];
        walk(&v, &arg, all, &mut exp);
        let (p, d, f) = if all { (v.all_paths(&arg), v.all_dirs(&arg), v.all_files(&arg)) } else { (v.paths(&arg), v.dirs(&arg), v.files(&arg)) };
        assert_eq!(p.unwrap(), exp, "C08: paths/all_paths");
        assert_eq!(d.unwrap(), exp.iter().filter(|x| v.is_dir(x)).cloned().collect::<Vec<_>>(), "C08: dirs/all_dirs");
        assert_eq!(f.unwrap(), exp.iter().filter(|x| v.is_file(x)).cloned().collect::<Vec<_>>(), "C08: files/all_files");
    }
}
''' % (f["desc"], "\n    ".join(mk), rs_str("/" if o["arg"] == 0 else "/" + nm[0]))
        r = native_test(src, ctx.logdir, "c08w_%d" % len(seen))
        reproduced = r["ran"] and r["failed"] > 0
        rec = dict(kind=f["kind"], desc='"%s" opts=%r cex=%r' % (f["desc"], o, c), where="Memfs", reproduced=reproduced, replay_outcome=r["out"][-500:])
        if reproduced:
            rec["replay"] = save_replay(prop, "c08_wrappers", src, f["desc"], dict(failed=r["failed"]))
        unit["failures"].append(rec)
        unit["status"] = "violation"
    return finish(unit, ex, solver, ob, t0, dict(models_used="Memfs and the traversal executed from MIR; reference listing in Python"))


def c08_expected_from(ex, st, flat, root, filt, emin, emax):
    """sorted reference traversal of the subtree rooted at `root` (depths relative to it)"""
    sub = [n for n in flat if n["key"] is root["key"] or _under(n, root, flat)]
    rel = [dict(n) for n in sub]
    # c08_expected walks from flat[0]: put the root first
    rel.sort(key=lambda n: 0 if n["key"] is root["key"] else 1)
    return c08_expected(ex, st, rel, filt, "name", False, emin, emax)


def _under(n, root, flat):
    p = n["parent"]
    while p is not None:
        if p is root["key"]:
            return True
        q = [m for m in flat if m["key"] is p]
        p = q[0]["parent"] if q else None
    return False


# ------------------------------------------------------------------------------------------------
# Self-test of the native replay generators: on the unchanged tree every generated replay must compile and pass.
# (A replay that does not compile would turn a solver counterexample into "did not reproduce".)
# ------------------------------------------------------------------------------------------------
@job("replay_selftest", ["C01", "C03", "C04", "C08", "C09", "C11"], "quick", functions=["(native) replay generators mem_replay_src, c08_replay_src, conc_replay_src"],
     bounds="one generated replay per generator variant with inputs on which the property holds: each must compile and pass natively")
def replay_selftest(ctx, prop):
    import concurrent.futures as cfut
    t0 = time.time()
    d3 = lambda extra: "".join(l + "\n" for l in sorted(extra)) + 'cwd=Some("/")'
    base3 = {'"/a" dir 40750 Some((1000, 1000))', '"/a/a" link->Some("/b") 120777 Some((1000, 1000))', '"/a/b" fileSome("x") 100600 Some((1000, 1000))',
             '"/b" fileSome("yz") 100644 Some((1000, 1000))'}
    cases = []
    for op, cex in (("mkfile", dict(arg0="ab")), ("move_p", dict(arg0="b", arg1="ab")), ("symlink", dict(arg0="ab", arg1="b")), ("copy", dict(arg0="a", arg1="ab")),
                    ("remove", dict(arg0="a")), ("remove_all", dict(arg0="a")), ("write_all", dict(arg0="ab", data1="Q")), ("mkdir_p", dict(arg0="b/a")), ("set_cwd", dict(arg0="b"))):
        cases.append(("mem_%s" % op, mem_replay_src(dict(op=op, cwd="/", cex=cex, desc="selftest", tree=TREE1))))
    cases.append(("copy_b", mem_replay_src(dict(op="copy_b/none/0", cwd="/", desc="selftest", tree=TREE3,
                                               cex=dict(arg0="b", arg1="ab", expect_dump=d3(base3 | {'"/ab" fileSome("yz") 100644 Some((1000, 1000))'}))))))
    cases.append(("chmod_b", mem_replay_src(dict(op="chmod_b/all/1/0", cwd="/", desc="selftest", tree=TREE3, cex=dict(arg0="a", val0=0o700, expect_dump=d3(
        {'"/a" dir 40700 Some((1000, 1000))', '"/a/a" link->Some("/b") 120777 Some((1000, 1000))', '"/a/b" fileSome("x") 100700 Some((1000, 1000))',
         '"/b" fileSome("yz") 100644 Some((1000, 1000))'}))))))
    cases.append(("chown_b", mem_replay_src(dict(op="chown_b/owner/1/0", cwd="/", desc="selftest", tree=TREE3, cex=dict(arg0="a", val0=5, val1=7, expect_dump=d3(
        {'"/a" dir 40750 Some((5, 7))', '"/a/a" link->Some("/b") 120777 Some((5, 7))', '"/a/b" fileSome("x") 100600 Some((5, 7))',
         '"/b" fileSome("yz") 100644 Some((1000, 1000))'}))))))
    for k, (opts, shape, nn) in enumerate(((dict(filter="none", sort="name", contents_first=True, follow=True), C08_SHAPE_LINK, 4),
                                           (dict(filter="files", sort="dirs_first", contents_first=True, follow=False), C08_SHAPE, 5),
                                           (dict(filter="none", sort="none", contents_first=False, follow=True), C08_SHAPE_LOOP2, 2))):
        cex = {"name%d" % i: "pqrst"[i] for i in range(nn)}
        cex.update(min_depth=1, max_depth=(1 << 64) - 1)
        cases.append(("c08_%d" % k, c08_replay_src(dict(desc="selftest", opts=dict(opts, listing_order=k % 2, shape=0), cex=cex), [(shape, nn)])))
    cases.append(("conc", conc_replay_src(dict(desc="selftest", threads=[["append_n_x"], ["move_b_ab"]], program="selftest"), rounds=500)))

    def run1(c):
        return c[0], native_test(c[1], ctx.logdir, "selftest_%s" % c[0])
    with cfut.ThreadPoolExecutor(max_workers=6) as pool:
        res = list(pool.map(run1, cases))
    bad = ["%s: %s" % (n, "does not compile" if not r.get("compiled", True) else "fails on the unchanged tree" if r["failed"] else "did not run")
           for n, r in res if not (r["ran"] and r["failed"] == 0 and r.get("compiled", True))]
    unit = dict(status="pass" if not bad else "inconclusive", failures=[], obligations=len(cases), discharged=len(cases) - len(bad), queries=0, solver_s=0.0,
                symex_s=0.0, paths=len(cases), samples=[dict(replay=n, passed=r["passed"], failed=r["failed"]) for n, r in res[:4]], wall_s=round(time.time() - t0, 1))
    if bad:
        unit["why"] = "replay generator self-test: " + "; ".join(bad)
    return unit



# ------------------------------------------------------------------------------------------------
# C20: the assert_vfs_* macros as test oracles (expanded inside the crate by kani/verif_macros.rs, Memfs backend)
# ------------------------------------------------------------------------------------------------
C20_CHECKING = ["exists", "no_exists", "is_dir", "no_dir", "is_file", "no_file", "is_symlink", "no_symlink"]


def _contains(ex, st, hay, needle):
    """does the char list `hay` contain `needle` (both possibly symbolic) - decided position by position"""
    n = len(needle)
    for k in range(0, len(hay) - n + 1):
        if all(ex.decide(st, chars_eq_one(a, b)) for a, b in zip(hay[k:k + n], needle)):
            return True
    return n == 0


def chars_eq_one(a, b):
    from .mirsym.values import bv_bin
    return bv_bin("Eq", a, b)


def run_macros(ctx, prop, macros, n, tag, cwds=("/", "/a")):
    from .mirsym.engine import State
    t0 = time.time()
    run = MemRun(ctx, tag)
    ex, ob, solver = run.ex, run.ob, run.solver
    unit = dict(status="pass", failures=[])
    Q = BV(32, False, ord('"'))
    for mac in macros:
        fn = ex.auto.resolve("verif_macros::vm_" + mac) or ex.auto.resolve("vm_" + mac)
        if fn is None:
            raise Unsupported("wrapper vm_%s is not in the MIR dump" % mac)
        two = mac in ("readlink_abs", "symlink", "copyfile")
        withdata = mac in ("read_all", "write_all")
        lens = [(a, b) for a in range(1, n + 1) for b in range(1, n + 1)] if two else [(a, 0) for a in range(1, n + 1)]
        extra_variants = [None]
        if mac == "readlink":
            extra_variants = ["../b", "/b", "b", "../a", "a"]
        for cwd in cwds:
            for (la, lb) in lens:
                for xv in extra_variants:
                    tagx = "%s_%s_%s_%d_%d_%s" % (tag, mac, cwd.replace("/", "r"), la, lb, (xv or "").replace("/", "s").replace(".", "d"))
                    v1, cons, g1 = mem_args(solver, tagx + "a", ["path2"], la, la)
                    args, groups = [v1[0]], {"arg0": g1["arg0"]}
                    second = None
                    if two:
                        v2, c2, g2 = mem_args(solver, tagx + "b", ["path2"], lb, lb)
                        cons, second = cons + c2, g2["arg0"]
                        args.append(v2[0])
                        groups["arg1"] = second
                    if xv is not None:
                        second = T_(xv)
                        args.append(BoxRef(M.SStr(list(second))))
                        groups["arg1"] = second
                    if mac == "mkdir_m":
                        solver.declare(tagx + "_m", "(_ BitVec 32)")
                        cons = cons + ["(bvule %s_m #x000001ff)" % tagx]
                        modev = BV(32, False, "(bvor %s_m #x00004000)" % tagx)  # the macro compares with the full mode (type bits included)
                        args.append(modev)
                        groups["mode"] = [BV(32, False, tagx + "_m")]
                    if withdata:
                        d, dc = sym_text(solver, tagx + "d", 1, ascii_only=True)
                        cons = cons + dc + ["(bvuge %s #x00000061)" % d[0].v, "(bvule %s #x0000007a)" % d[0].v]
                        args.append(M.SStr(list(d)) if mac == "read_all" else BoxRef(M.SStr(list(d))))
                        groups["data"] = d
                    memfs, inner = mk_memfs(TREE3, cwd)

                    def on_path(st, mac=mac, cwd=cwd, groups=groups, second=second, memfs=memfs, inner=inner, args=args, fn=fn):
                        if st.meta.get("i", -1) < 0:
                            st2 = ex.start(fn, [BoxRef(st.meta["memfs"])] + list(args))
                            st2.pc, st2.meta = list(st.pc), dict(st.meta, i=0, before=snapshot_store(ex, st, st.meta["inner"]))
                            return [st2]
                        inner = st.meta["inner"]  # the store of *this* path (states are copied at forks)
                        cf = lambda extra: text_model(ex, st, groups, extra)
                        meta = dict(mac=mac, cwd=cwd, where="assert_vfs_%s!" % mac)
                        if st.bound_hit:
                            ob.total += 1
                            ob.failures.append(dict(kind="bound", cex=cf([]), desc="C20: bound hit in assert_vfs_%s!: %s" % (mac, st.bound_hit), **meta))
                            return
                        panicked = bool(st.panic)
                        msg = getattr(ex, "last_panic_fmt", None) if panicked and str(st.panic).startswith("panic_fmt") else None
                        if panicked and msg is None:
                            ob.total += 1
                            ob.failures.append(dict(kind="panic", cex=cf([]), desc="C12: assert_vfs_%s! panics outside its message protocol: %s" % (mac, st.panic), **meta))
                            return
                        before, after = st.meta["before"], snapshot_store(ex, st, inner)
                        ref = ref_from_snapshot(ex, st, before)
                        pa = abs_oracle(ex, st, groups["arg0"], T_(cwd), run.tenv)
                        name_ok = lambda: _contains(ex, st, msg.chars, T_("assert_vfs_%s!" % mac))
                        path_ok = lambda t: _contains(ex, st, msg.chars, list(t))  # quoted or not: the statement only asks that the path is named
                        P = lambda d, f, c=cf: ob.prove(ex, st, d, f, c) or ob.failures[-1].update(**meta)
                        if pa[0] == "skip":
                            return
                        if pa[0] == "err":
                            P("C20: assert_vfs_%s! panics when the path does not resolve (cwd %s)" % (mac, cwd), B(panicked))
                            if panicked:
                                P("C20: the panic message names the macro and the path given (unresolvable path, cwd %s)" % cwd, B(name_ok() and path_ok(groups["arg0"])))
                            return
                        target = pa[1]
                        node = ref_find(ex, st, ref, target)
                        kind = node["kind"] if node else None
                        expect, same_tree, ref_after = None, True, None  # expect: True = must pass, False = must panic
                        if mac in C20_CHECKING:
                            expect = {"exists": kind is not None, "no_exists": kind is None, "is_dir": kind == "d", "no_dir": kind != "d", "is_file": kind == "f",
                                      "no_file": kind != "f", "is_symlink": kind == "l", "no_symlink": kind != "l"}[mac]
                        elif mac == "read_all":
                            expect = kind == "f" and len(node["content"]) == 1 and ex.decide(st, __import__("lib.mirsym.values", fromlist=["bv_bin"]).bv_bin(
                                "Eq", BV(32, False, "((_ zero_extend 24) %s)" % node["content"][0].smt()) if not node["content"][0].concrete else BV(32, False, node["content"][0].v),
                                groups["data"][0]))
                        elif mac == "readlink":
                            expect = kind == "l" and ex.decide(st, text_eq(list(second), T_("../b")))  # the only link of the fixture: /a/a -> /b
                        elif mac == "readlink_abs":
                            pb = abs_oracle(ex, st, second, T_(cwd), run.tenv)
                            if pb[0] != "ok":
                                if pb[0] == "err":
                                    P("C20: assert_vfs_readlink_abs! panics when the expected target does not resolve (cwd %s)" % cwd, B(panicked))
                                return
                            expect = kind == "l" and ex.decide(st, TP.path_eq_text(ex, st, node["alt"], pb[1]))
                        else:
                            # acting macros: perform the operation (reference) and check the postcondition
                            same_tree = False
                            r2 = ref_from_snapshot(ex, st, before)
                            if mac == "mkdir_m":
                                from .mirsym.values import bv_bin as _bvb
                                want = BV(32, False, "(bvor %s #x00004000)" % groups["mode"][0].smt())
                                nbefore = len(r2["nodes"])
                                out, _ = ref_apply(ex, st, r2, "mkdir_p", [target], None)
                                if out == "skip":
                                    return
                                for nn in r2["nodes"][nbefore:]:
                                    nn["mode"] = want  # every directory created on the way gets the requested mode
                                tn = ref_find(ex, st, r2, target) if out == "ok" else None
                                expect = out == "ok" and tn is not None and ex.decide(st, _bvb("Eq", tn["mode"], want))
                                ref_after = r2 if out == "ok" else None
                            elif mac in ("mkdir_p", "remove", "remove_all"):
                                if mac == "remove" and node is None:
                                    expect, ref_after = True, r2
                                else:
                                    out, _ = ref_apply(ex, st, r2, mac, [target], None)
                                    if out == "skip":
                                        return
                                    expect, ref_after = out == "ok", r2 if out == "ok" else None
                            elif mac == "mkfile":
                                if node is not None:
                                    expect, ref_after = kind == "f", r2
                                else:
                                    out, _ = ref_apply(ex, st, r2, "mkfile", [target], None)
                                    expect, ref_after = out == "ok", r2 if out == "ok" else None
                            elif mac == "write_all":
                                out, _ = ref_apply(ex, st, r2, "write_all", [target], groups["data"])
                                if out == "skip":
                                    return
                                expect, ref_after = out == "ok", r2 if out == "ok" else None
                            elif mac == "symlink":
                                a1 = second if ex.decide(st, TP.is_ch(second[0], TP.SLASH)) else list(TP.parent_text(ex, st, target) or T_("/")) + T_("/") + list(second)
                                pb = abs_oracle(ex, st, a1, T_(cwd), run.tenv)
                                if pb[0] != "ok":
                                    return
                                if node is not None:
                                    expect, ref_after = kind == "l", r2  # documented: "If the symlink exists no change is made"
                                else:
                                    out, _ = ref_apply(ex, st, r2, "symlink", [target, pb[1]], None)
                                    if out == "skip":
                                        return
                                    expect, ref_after = out == "ok", r2 if out == "ok" else None
                            elif mac == "copyfile":
                                pb = abs_oracle(ex, st, second, T_(cwd), run.tenv)
                                if pb[0] != "ok":
                                    if pb[0] == "err":
                                        P("C20: assert_vfs_copyfile! panics when the destination does not resolve (cwd %s)" % cwd, B(panicked))
                                    return
                                if kind != "f":
                                    expect, ref_after = False, None
                                else:
                                    out, _ = ref_apply(ex, st, r2, "copy", [target, pb[1]], None)
                                    if out == "skip":
                                        return
                                    dstn = ref_find(ex, st, r2, pb[1]) if out == "ok" else None
                                    expect, ref_after = out == "ok" and dstn is not None and dstn["kind"] == "f", r2 if out == "ok" else None
                        what = "predicate" if mac in C20_CHECKING or mac.startswith("read") else "operation and postcondition"
                        P("C20: assert_vfs_%s! passes exactly when its %s holds (cwd %s): expected %s" % (mac, what, cwd, "pass" if expect else "panic"), B(panicked != bool(expect)))
                        if panicked:
                            P("C20: the panic message of assert_vfs_%s! names the macro (cwd %s)" % (mac, cwd), B(name_ok()))
                            if mac in C20_CHECKING and panicked != bool(expect) is False:
                                pass
                            if mac in C20_CHECKING:
                                P("C20: the panic message of assert_vfs_%s! names the path (cwd %s)" % (mac, cwd), B(path_ok(target)))
                        if same_tree:
                            P("C20: the checking macro assert_vfs_%s! does not change the filesystem (cwd %s)" % (mac, cwd), store_same(ex, st, before, after))
                        elif not panicked and ref_after is not None:
                            P("C20: assert_vfs_%s! performed the operation: the tree equals the reference filesystem's (cwd %s)" % (mac, cwd), ref_matches(ex, st, ref_after, after))
                        if len(ob.samples) < 6:
                            ob.samples.append(dict(macro=mac, cwd=cwd, args=cf([]), panicked=panicked))

                    st0 = State()
                    st0.done = True
                    st0.meta = dict(i=-1, memfs=memfs, inner=inner)
                    st0.pc = list(cons)
                    ex.explore(st0, on_path)
    seen = set()
    for f in ob.failures:
        if f["kind"] == "bound" or not f.get("cex"):
            unit["status"], unit["why"] = "inconclusive", f["desc"]
            continue
        key = (f["mac"], re.sub(r" \(cwd .*?\)", "", f["desc"]))
        if key in seen or len(seen) >= 8:
            continue
        seen.add(key)
        src = c20_replay_src(f)
        r = native_test(src, ctx.logdir, "%s_%d" % (tag, len(seen)))
        reproduced = r["ran"] and r["failed"] > 0
        rec = dict(kind=f["kind"], desc='"%s" args=%r' % (f["desc"], f["cex"]), where=f["where"], reproduced=reproduced, replay_outcome=r["out"][-500:])
        if reproduced:
            rec["replay"] = save_replay(prop, tag, src, f["desc"], dict(failed=r["failed"]))
        unit["failures"].append(rec)
        unit["status"] = "violation"
    return finish(unit, ex, solver, ob, t0, dict(models_used="macro expansions executed from MIR (wrappers kani/verif_macros.rs injected into the scratch copy); panic!/format! through their compiled templates"))


def c20_replay_src(f):
    mac, a, cwd = f["mac"], f["cex"], f["cwd"]
    want_pass = "expected pass" in f["desc"]
    args = [rs_str(a["arg0"])]
    if "arg1" in a:
        args.append(rs_str(a["arg1"]))
    if "data" in a:
        args.append(rs_str(a["data"]))
    if "mode" in a:
        mo = a["mode"]
        args.append("0o%o" % (0o40000 | (ord(mo) if isinstance(mo, str) and len(mo) == 1 else int(mo or 0))))
    call = "assert_vfs_%s!(v, %s);" % (mac, ", ".join(args))
    if "passes exactly" in f["desc"]:
        check = ('assert!(r.is_ok(), "C20: assert_vfs_%s! fails on a state that satisfies it: {:?}", msg);' % mac) if want_pass else \
                ('assert!(r.is_err(), "C20: assert_vfs_%s! passes although its predicate / postcondition does not hold");' % mac)
    elif "names the macro" in f["desc"]:
        check = 'assert!(r.is_ok() || msg.contains("assert_vfs_%s!"), "C20: the panic message does not name the macro: {:?}", msg);' % mac
    elif "names the path" in f["desc"]:
        check = 'assert!(r.is_ok() || msg.contains(&v.abs(%s).map(|p| p.to_str().unwrap().to_string()).unwrap_or(%s.to_string())), "C20: the panic message does not name the path: {:?}", msg);' % (args[0], args[0])
    elif "performed the operation" in f["desc"]:
        check = 'assert!(r.is_err() || dump(&v).split("\\n[cwd]").next().unwrap() != before.split("\\n[cwd]").next().unwrap() || %s, "C20: assert_vfs_%s! passed without performing the operation");' % (
            "false", mac)
        if mac == "write_all":
            check = 'assert!(r.is_err() || v.read_all(%s).ok() == Some(%s.to_string()), "C20: assert_vfs_write_all! passed but the file does not hold the data");' % (args[0], args[-1])
        if mac == "symlink":
            check = 'assert!(r.is_err() || v.readlink_abs(%s).ok() == v.abs(if std::path::Path::new(%s).is_absolute() { std::path::PathBuf::from(%s) } else { v.abs(%s).unwrap().parent().unwrap().join(%s) }).ok(), "C20: assert_vfs_symlink! passed but the link does not point to the target");' % (
                args[0], args[1], args[1], args[0], args[1])
    else:
        check = 'assert!(r.is_ok() || true);'
    return MEM_REPLAY_PRELUDE + '''
#[test]
fn replay_macro() {
    // %s
    let v = fixture3();
    v.set_cwd(%s).unwrap();
    let before = dump(&v);
    let _ = &before;
    let prev = std::panic::take_hook();
    std::panic::set_hook(Box::new(|_| {}));
    let r = std::panic::catch_unwind(std::panic::AssertUnwindSafe(|| { %s }));
    std::panic::set_hook(prev);
    let msg = match &r { Err(e) => e.downcast_ref::<String>().cloned().or(e.downcast_ref::<&str>().map(|s| s.to_string())).unwrap_or_default(), Ok(_) => String::new() };
    if let Err(e) = well_formed(&v) { panic!("C03: tree not well formed after the macro: {}", e); }
    %s
}
''' % (f["desc"], rs_str(cwd), call, check)



def _mk_c20(name, macros, tier, n=2):
    @job(name, ["C20", "C12"], tier, functions=["expansions of assert_vfs_{%s}! (wrappers kani/verif_macros.rs injected into the scratch copy before the MIR dump), panic_msg!, "
                                                "and the Memfs methods they call (real MIR)" % ",".join(macros)],
         bounds="Memfs only; state {/, /a (dir), /a/a -> /b (link), /a/b (file 'x'), /b (file 'yz')} with cwd '/' and '/a'; every path argument of 1..=%d chars over {'/','a','b','.'}; "
                "data one symbolic lower-case letter; readlink targets from {'../b','/b','b','../a','a'}" % n)
    def f(ctx, prop):
        return run_macros(ctx, prop, macros, n, name)
    return f


_mk_c20("c20_checking", C20_CHECKING, "quick")
_mk_c20("c20_reading", ["read_all", "readlink", "readlink_abs"], "quick")
_mk_c20("c20_acting_a", ["mkdir_p", "mkdir_m", "mkfile", "write_all", "remove", "remove_all"], "quick")
_mk_c20("c20_acting_b", ["symlink", "copyfile"], "quick")
_mk_c20("c20_checking3", C20_CHECKING + ["read_all", "mkfile", "remove"], "thorough", 3)


@job("c10_readlink_nonlink", ["C10", "C12"], "quick", functions=["Memfs::{readlink,readlink_abs} (real MIR)"],
     bounds="every path text of 1..=3 chars over {'/','a','b','.'} from the tree {/, /a, /a/a -> /b, /a/b, /b} with cwd '/' and '/a'")
def c10_readlink_nonlink(ctx, prop):
    t0 = time.time()
    run = MemRun(ctx, "c10_readlink_nonlink")
    ex, ob, solver = run.ex, run.ob, run.solver
    unit = dict(status="pass", failures=[])
    for cwd in ("/", "/a"):
        for n in (1, 2, 3):
            v, cons, g = mem_args(solver, "c10rl_%s_%d" % (cwd.replace("/", "r"), n), ["path"], n, n)

            def on_done(st, results, inner, i, cwd=cwd, g=g):
                cf = lambda extra: text_model(ex, st, g, extra)
                bad = [r for r in results if r[0] in ("panic", "bound")]
                if bad:
                    ob.total += 1
                    ob.failures.append(dict(kind="panic" if bad[0][0] == "panic" else "bound", cex=cf([]), cwd=cwd, where="Memfs::readlink", desc="C12: readlink panics/loops: %s" % bad[0][1]))
                    return
                pa = abs_oracle(ex, st, g["arg0"], T_(cwd), run.tenv)
                if pa[0] != "ok":
                    return
                ref = ref_from_snapshot(ex, st, snapshot_store(ex, st, inner))
                node = ref_find(ex, st, ref, pa[1])
                islink = node is not None and node["kind"] == "l"
                for (name, (rk, rv)) in zip(("readlink", "readlink_abs"), results):
                    ok = isinstance(rv, Adt) and rv.variant == 0
                    ob.prove(ex, st, "C10: %s succeeds exactly on a link (fails on a non-link or missing path) (cwd %s)" % (name, cwd), B(ok == islink), cf) or \
                        ob.failures[-1].update(cwd=cwd, where="Memfs::" + name)
                    if ok and islink and name == "readlink_abs":
                        ob.prove(ex, st, "C10: readlink_abs returns the stored absolute target (cwd %s)" % cwd, TP.path_eq_text(ex, st, rv.fields[0].chars, node["alt"]), cf) or \
                            ob.failures[-1].update(cwd=cwd, where="Memfs::readlink_abs")
                if len(ob.samples) < 3:
                    ob.samples.append(dict(cwd=cwd, path=cf([])))

            run.explore(TREE3, cwd, [("readlink", [v[0]]), ("readlink_abs", [v[0]])], cons, on_done)
    seen = set()
    for f in ob.failures:
        if f["kind"] == "bound" or not f.get("cex"):
            unit["status"], unit["why"] = "inconclusive", f["desc"]
            continue
        key = re.sub(r" \(cwd .*", "", f["desc"])
        if key in seen or len(seen) >= 3:
            continue
        seen.add(key)
        src = MEM_REPLAY_PRELUDE + '''
#[test]
fn replay_readlink() {
    // %s
    let v = fixture3();
    v.set_cwd(%s).unwrap();
    let p = %s;
    let islink = v.is_symlink(p);
    assert_eq!(v.readlink(p).is_ok(), islink, "C10: readlink on a non-link must fail (and succeed on a link)");
    assert_eq!(v.readlink_abs(p).is_ok(), islink, "C10: readlink_abs on a non-link must fail (and succeed on a link)");
}
''' % (f["desc"], rs_str(f["cwd"]), rs_str(f["cex"]["arg0"]))
        r = native_test(src, ctx.logdir, "c10rl_%d" % len(seen))
        reproduced = r["ran"] and r["failed"] > 0
        rec = dict(kind=f["kind"], desc='"%s" args=%r' % (f["desc"], f["cex"]), where=f["where"], reproduced=reproduced, replay_outcome=r["out"][-400:])
        if reproduced:
            rec["replay"] = save_replay(prop, "c10_readlink_nonlink", src, f["desc"], dict(failed=r["failed"]))
        unit["failures"].append(rec)
        unit["status"] = "violation"
    return finish(unit, ex, solver, ob, t0, dict(models_used="Memfs executed from MIR; reference state in Python"))
