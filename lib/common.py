"""Shared plumbing: scratch copies of /repo, evidence files, known findings, process helpers."""
import atexit
import json
import os
import shutil
import signal
import subprocess
import tempfile
import time

VERIF = os.path.dirname(os.path.dirname(os.path.abspath(__file__)))
REPO = os.environ.get("VERIF_REPO", "/repo")
SEED = int(os.environ.get("VERIF_SEED", "0") or 0)

_scratch_dirs = []


def _cleanup():
    for d in _scratch_dirs:
        shutil.rmtree(d, ignore_errors=True)


atexit.register(_cleanup)


def _sig(signum, frame):
    _cleanup()
    os._exit(130)


signal.signal(signal.SIGTERM, _sig)


def offline_env(extra=None):
    env = dict(os.environ)
    env["CARGO_NET_OFFLINE"] = "true"
    env.pop("RUSTFLAGS", None)
    if extra:
        env.update(extra)
    return env


def new_scratch(tag):
    """Fresh copy of /repo's *current working tree* sources (src, Cargo.toml, Cargo.lock)."""
    base = os.environ.get("VERIF_SCRATCH_BASE") or tempfile.gettempdir()
    d = tempfile.mkdtemp(prefix="rivia-verif-%s-" % tag, dir=base)
    _scratch_dirs.append(d)
    subprocess.run(["rsync", "-a", "--delete", os.path.join(REPO, "src"), d + "/"], check=True)
    for f in ("Cargo.toml", "Cargo.lock"):
        shutil.copy2(os.path.join(REPO, f), os.path.join(d, f))
    os.makedirs(os.path.join(d, ".cargo"), exist_ok=True)
    with open(os.path.join(d, ".cargo", "config.toml"), "w") as f:
        f.write("[net]\noffline = true\n")
    return d


def drop_scratch(d):
    shutil.rmtree(d, ignore_errors=True)
    if d in _scratch_dirs:
        _scratch_dirs.remove(d)


def repo_fingerprint():
    try:
        head = subprocess.run(["git", "-C", REPO, "rev-parse", "HEAD"], capture_output=True, text=True).stdout.strip()
        dirty = subprocess.run(["git", "-C", REPO, "status", "--porcelain", "--", "src", "Cargo.toml"],
                               capture_output=True, text=True).stdout.strip()
        return head + ("+dirty" if dirty else "")
    except Exception:
        return "unknown"


def run_capped(cmd, cwd, cap_s, env=None, mem_gb=None, log=None):
    """Run cmd in its own process group with a wall cap; returns (rc, output, seconds, timed_out)."""
    t0 = time.time()

    def pre():
        os.setsid()
        if mem_gb:
            import resource
            lim = int(mem_gb * (1 << 30))
            resource.setrlimit(resource.RLIMIT_AS, (lim, lim))

    p = subprocess.Popen(cmd, cwd=cwd, env=env or offline_env(), stdout=subprocess.PIPE,
                         stderr=subprocess.STDOUT, text=True, errors="replace", preexec_fn=pre)
    timed_out = False
    try:
        out, _ = p.communicate(timeout=cap_s)
    except subprocess.TimeoutExpired:
        timed_out = True
        try:
            os.killpg(p.pid, signal.SIGKILL)
        except ProcessLookupError:
            pass
        out, _ = p.communicate()
    dt = time.time() - t0
    if log:
        with open(log, "w") as f:
            f.write(out)
    return p.returncode, out, dt, timed_out


# ---------------------------------------------------------------------------------------------
# known findings
# ---------------------------------------------------------------------------------------------
def load_findings():
    p = os.path.join(VERIF, "known_findings.json")
    if not os.path.exists(p):
        return {"findings": [], "fixed": []}
    with open(p) as f:
        return json.load(f)


def match_finding(findings, prop, unit, desc, where):
    """A finding matches by property + unit role + a substring of the failing check's description
    and (optionally) of its location; anything else of the same property still alarms."""
    for k in findings.get("findings", []):
        if k.get("property") != prop:
            continue
        if k.get("unit") and k["unit"] != unit:
            continue
        if k.get("desc_contains") and k["desc_contains"] not in desc:
            continue
        if k.get("where_contains") and k["where_contains"] not in where:
            continue
        return k
    return None


# ---------------------------------------------------------------------------------------------
# evidence
# ---------------------------------------------------------------------------------------------
def write_evidence(prop, tier, level, coverage, assumptions, wall_s, violations):
    evdir = "evidence" if REPO == "/repo" else os.path.join(".cache", "evidence_alt")  # runs against a copy never touch evidence/
    os.makedirs(os.path.join(VERIF, evdir), exist_ok=True)
    ev = {
        "property_id": prop,
        "tier": tier,
        "seed": SEED,
        "level": level,
        "coverage": coverage,
        "assumptions": assumptions,
        "wall_s": round(wall_s, 2),
        "violations": violations,
        "repo": repo_fingerprint(),
    }
    p = os.path.join(VERIF, evdir, prop + ".json")
    tmp = p + ".tmp"
    with open(tmp, "w") as f:
        json.dump(ev, f, indent=1, sort_keys=False)
        f.write("\n")
    os.replace(tmp, p)
    return p
