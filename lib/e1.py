"""E1: Kani/CBMC harnesses over the compiled crate (scratch copy of /repo's working tree)."""
import concurrent.futures as cf
import hashlib
import os
import random
import re
import shutil
import time

from . import common
from .common import VERIF

# harness source files and where they are injected
KANI_FILES = {
    "verif_core": dict(src="kani/verif_core.rs", dst="src/verif_core.rs", mod_file="src/lib.rs",
                       modpath="verif_core"),
    "verif_file": dict(src="kani/verif_file.rs", dst="src/sys/fs/memfs/verif_file.rs",
                       mod_file="src/sys/fs/memfs/mod.rs", modpath="sys::fs::memfs::verif_file"),
    "verif_entry": dict(src="kani/verif_entry.rs", dst="src/sys/fs/memfs/verif_entry.rs",
                        mod_file="src/sys/fs/memfs/mod.rs", modpath="sys::fs::memfs::verif_entry"),
    "verif_chmod": dict(src="kani/verif_chmod.rs", dst="src/sys/fs/verif_chmod.rs",
                        mod_file="src/sys/fs/mod.rs", modpath="sys::fs::verif_chmod"),
}

STUB_NOTE = []


def inject(scratch, files=None):
    for key, f in KANI_FILES.items():
        if files is not None and key not in files:
            continue
        src = os.path.join(VERIF, f["src"])
        if not os.path.exists(src):
            continue
        shutil.copy2(src, os.path.join(scratch, f["dst"]))
        modname = os.path.basename(f["dst"])[:-3]
        with open(os.path.join(scratch, f["mod_file"]), "a") as out:
            out.write("\n#[cfg(kani)]\nmod %s;\n" % modname)


RE_FAILED = re.compile(r"\*\* (\d+) of (\d+) failed(?: \((.*?)\))?")
RE_COVER = re.compile(r"\*\* (\d+) of (\d+) cover properties satisfied")
RE_SYMEX = re.compile(r"Runtime Symex: ([0-9.]+)s")
RE_SOLVER = re.compile(r"Runtime Solver: ([0-9.]+)s")
RE_VTIME = re.compile(r"Verification Time: ([0-9.]+)s")
RE_VARS = re.compile(r"(\d+) variables, (\d+) clauses")
RE_CHECK = re.compile(
    r"Check (\d+): (.*)\n\s+- Status: (\w+)\n\s+- Description: (.*)\n\s+- Location: (.*)")
RE_FUNC_PROP = re.compile(r'"?(C\d\d):')


def parse_kani(out):
    r = dict(verdict=None, failed=None, total=None, unreachable=0, undetermined=0, cover_sat=None, cover_total=None,
             symex_s=0.0, solver_s=0.0, verif_s=None, sat_calls=0, vars=0, clauses=0, failures=[], cover_unsat=[])
    m = re.search(r"VERIFICATION:- (\w+)", out)
    if m:
        r["verdict"] = m.group(1)
    m = RE_FAILED.search(out)
    if m:
        r["failed"], r["total"] = int(m.group(1)), int(m.group(2))
        extra = m.group(3) or ""
        mu = re.search(r"(\d+) unreachable", extra)
        if mu:
            r["unreachable"] = int(mu.group(1))
        mu = re.search(r"(\d+) undetermined", extra)
        if mu:
            r["undetermined"] = int(mu.group(1))
    m = RE_COVER.search(out)
    if m:
        r["cover_sat"], r["cover_total"] = int(m.group(1)), int(m.group(2))
    r["symex_s"] = sum(float(x) for x in RE_SYMEX.findall(out))
    sol = RE_SOLVER.findall(out)
    r["solver_s"] = sum(float(x) for x in sol)
    r["sat_calls"] = len(sol)
    vc = RE_VARS.findall(out)
    if vc:
        r["vars"], r["clauses"] = max(int(a) for a, _ in vc), max(int(b) for _, b in vc)
    m = RE_VTIME.search(out)
    if m:
        r["verif_s"] = float(m.group(1))
    for cm in RE_CHECK.finditer(out):
        num, name, status, desc, loc = cm.groups()
        if ".cover." in name or name.endswith(".cover"):
            if status in ("UNSATISFIABLE", "UNREACHABLE"):
                r["cover_unsat"].append(dict(desc=desc.strip(), where=loc.strip()))
            continue
        if status == "FAILURE":
            r["failures"].append(dict(check=name, desc=desc.strip(), where=loc.strip()))
    return r


def classify(fail):
    d = fail["desc"]
    if "unwinding assertion" in d:
        return "unwind"
    if "is not currently supported by Kani" in d or "call to foreign" in d or "unsupported" in d.lower():
        return "unsupported"
    if d.strip('"').startswith("witness:"):
        return "witness"
    if RE_FUNC_PROP.match(d):
        return "functional"
    return "panic"


RE_PLAYBACK = re.compile(r"Concrete playback unit test for `([^`]+)`:\n```\n(.*?)```", re.S)


def kani_cmd(h, tdir, playback=False):
    modpath = KANI_FILES[h["file"]]["modpath"]
    cmd = ["cargo", "kani", "--harness", "%s::%s" % (modpath, h["name"]), "--exact", "-Z", "stubbing",
           "--target-dir", tdir]
    if playback:
        cmd += ["-Z", "concrete-playback", "--concrete-playback=print"]
    cmd += h.get("extra_args", [])
    return cmd


def run_harness(scratch, h, cap_s, logdir):
    tdir = os.path.join(scratch, "t_" + h["name"])
    rc, out, dt, to = common.run_capped(kani_cmd(h, tdir), scratch, cap_s, mem_gb=h.get("mem_gb", 14),
                                        log=os.path.join(logdir, h["name"] + ".log"))
    res = parse_kani(out)
    res.update(name=h["name"], wall_s=dt, timed_out=to, rc=rc, playback=None)
    res["compile_error"] = ("error: could not compile" in out or "error[E" in out) and res["verdict"] is None
    if res["compile_error"]:
        res["compile_msg"] = "\n".join(l for l in out.splitlines() if l.startswith("error"))[:2000]
    # a failing non-witness harness: re-run with concrete playback to obtain a replayable test
    if res["verdict"] == "FAILED" and not h.get("witness") and any(
            classify(f) in ("functional", "panic") for f in res["failures"]):
        rc2, out2, dt2, to2 = common.run_capped(kani_cmd(h, tdir, playback=True), scratch, cap_s,
                                                mem_gb=h.get("mem_gb", 14),
                                                log=os.path.join(logdir, h["name"] + ".playback.log"))
        tests = RE_PLAYBACK.findall(out2)
        res["playback"] = [t for _, t in tests]
        res["wall_s"] += dt2
    shutil.rmtree(tdir, ignore_errors=True)
    return res


PLAYBACK_ENV_RELEASE = {
    "CARGO_PROFILE_DEV_OPT_LEVEL": "3",
    "CARGO_PROFILE_DEV_OVERFLOW_CHECKS": "false",
    "CARGO_PROFILE_DEV_DEBUG_ASSERTIONS": "false",
}


def native_replay(h, test_src, logdir, tag=""):
    """Replays a Kani concrete-playback test natively against the real code (dev profile, which is
    what Kani models, and a release-like profile).  Returns dict(dev=bool reproduced, rel=bool, log)."""
    scratch = common.new_scratch("replay")
    inject(scratch, files=[h["file"]])
    dst = os.path.join(scratch, KANI_FILES[h["file"]]["dst"])
    with open(dst, "a") as f:
        f.write("\n" + test_src + "\n")
    m = re.search(r"fn (kani_concrete_playback_\w+)", test_src)
    tname = m.group(1) if m else "kani_concrete_playback"
    out = {}
    for prof, env in (("dev", None),):
        rc, o, dt, to = common.run_capped(
            ["cargo", "kani", "playback", "-Z", "concrete-playback", "--", tname], scratch, 900,
            env=common.offline_env(env), log=os.path.join(logdir, "replay_%s_%s%s.log" % (h["name"], prof, tag)))
        ran = re.search(r"test result: (\w+)\. (\d+) passed; (\d+) failed", o)
        reproduced = bool(ran and int(ran.group(3)) >= 1)
        ok = bool(ran)
        panic = ""
        pm = re.search(r"panicked at ([^\n]*)\n([^\n]*)", o)
        if pm:
            panic = (pm.group(1) + " " + pm.group(2)).strip()
        out[prof] = dict(ran=ok, reproduced=reproduced, panic=panic[:300])
    common.drop_scratch(scratch)
    return out


def save_replay(prop, h, test_src, fail, replay):
    d = os.path.join(VERIF, "replays", prop)
    os.makedirs(d, exist_ok=True)
    hid = hashlib.sha1((h["name"] + test_src).encode()).hexdigest()[:10]
    p = os.path.join(d, "%s-%s.rs" % (h["name"], hid))
    with open(p, "w") as f:
        f.write("// replay for property %s, harness %s (file %s)\n" % (prop, h["name"], KANI_FILES[h["file"]]["src"]))
        f.write("// failing check: %s @ %s\n" % (fail["desc"], fail["where"]))
        f.write("// native replay outcome: %s\n" % replay)
        f.write("// VERIF-HARNESS: %s %s\n" % (h["file"], h["name"]))
        f.write(test_src)
    return p


def run_e1(harnesses, tier, prop, logdir):
    """Runs the given harness descriptors; returns list of unit results (see check driver)."""
    os.makedirs(logdir, exist_ok=True)
    scratch = common.new_scratch("kani")
    inject(scratch)
    order = list(harnesses)
    random.Random(common.SEED).shuffle(order)
    # longest first would be better for makespan; keep caps as the proxy
    order.sort(key=lambda h: -h.get("weight", 1))
    results = {}
    workers = int(os.environ.get("VERIF_JOBS", "14"))
    with cf.ThreadPoolExecutor(max_workers=workers) as ex:
        futs = {ex.submit(run_harness, scratch, h, h.get("cap_" + tier, h.get("cap", 600)), logdir): h
                for h in order}
        for fu in cf.as_completed(futs):
            h = futs[fu]
            results[h["name"]] = fu.result()
    common.drop_scratch(scratch)

    units = []
    for h in harnesses:
        r = results[h["name"]]
        u = dict(unit=h["name"], engine="kani", props=h["props"], functions=h.get("functions", []),
                 bounds=h.get("bounds", ""), witness=bool(h.get("witness")), raw=r, failures=[],
                 status="pass", why="")
        if r["compile_error"]:
            u["status"], u["why"] = "inconclusive", "harness does not compile against the current tree: " + r.get(
                "compile_msg", "")[:400]
        elif r["timed_out"]:
            u["status"], u["why"] = "inconclusive", "wall cap reached (%.0fs)" % r["wall_s"]
        elif r["verdict"] is None:
            u["status"], u["why"] = "inconclusive", "no verdict from Kani (rc=%s)" % r["rc"]
        elif h.get("witness"):
            kinds = [classify(f) for f in r["failures"]]
            if r["verdict"] == "FAILED" and "witness" in kinds:
                u["status"] = "pass"
            else:
                u["status"], u["why"] = "inconclusive", "vacuity witness did not fail: harness end unreachable"
        else:
            kinds = [(classify(f), f) for f in r["failures"]]
            if any(k in ("unwind", "unsupported") for k, _ in kinds):
                u["status"] = "inconclusive"
                u["why"] = "; ".join(f["desc"] for k, f in kinds if k in ("unwind", "unsupported"))[:400]
            if r["cover_total"] is not None and r["cover_sat"] != r["cover_total"] and r["verdict"] == "SUCCESSFUL":
                u["status"] = "inconclusive"
                u["why"] += " cover witnesses unsatisfied: %s" % r["cover_unsat"]
            real = [(k, f) for k, f in kinds if k in ("functional", "panic")]
            if real and u["status"] != "inconclusive":
                u["status"] = "violation"
            for k, f in real:
                u["failures"].append(dict(kind=k, desc=f["desc"], where=f["where"], check=f["check"]))
            if r["verdict"] == "FAILED" and not real and u["status"] == "pass":
                u["status"], u["why"] = "inconclusive", "FAILED without a classifiable check (out of memory?)"
        units.append(u)
    return units
