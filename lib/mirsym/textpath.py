"""Text-level model of std::path on unix: Path / PathBuf / OsStr are character sequences (SStr),
`components()` is std's tokeniser re-stated over symbolic chars (every decision `c == '/'`,
`c == '.'` is made by the solver), and PathBuf::{push,pop}, Path::{parent,join,file_name,extension,
file_stem}, Components::{next,next_back,last,nth,as_path} follow the documented std behaviour.

Environment model in the sense of the brief: it stands for std, not for rivia, and is validated
against the real std::path by a native differential test (lib/e2_validate.py)."""
import re

from .engine import CallBack, Identity, Panic, Unsupported
from .models import (DrainCont, LazyIter, CUR, NORMAL, PARENT, ROOT, SStr, VecM, _last_ref, _obj, bv_sum, chars_eq, opt_none, opt_some, rx,
                     utf8_len)
from .values import B, BV, I, UNIT, Adt, BoxRef, Ref, Str, b_and, b_not, b_or, bv_bin

SLASH, DOT = ord("/"), ord(".")


def ch(k):
    return BV(32, False, k)


def is_ch(c, k):
    return bv_bin("Eq", c, ch(k))


class TComp:
    """A component with its text.  kind is concrete (the tokeniser decides it)."""
    immutable = True

    def __init__(self, kind, text):
        self.kind, self.text = kind, list(text)

    def discriminant(self):
        return I(self.kind)

    def downcast(self, name):
        return self

    def get_field(self, n):
        return SStr(self.text)  # Component::Normal(&OsStr)

    def as_text(self):
        return self.text

    def __repr__(self):
        return "TComp(%d,%d chars)" % (self.kind, len(self.text))


def tcomp_eq(a, b):
    if a.kind != b.kind:
        return B(False)
    if a.kind != NORMAL:
        return B(True)
    if len(a.text) != len(b.text):
        return B(False)
    return chars_eq(a.text, b.text) if a.text else B(True)


def comp_of_enum(vn):
    return {"RootDir": TComp(ROOT, [ch(SLASH)]), "CurDir": TComp(CUR, [ch(DOT)]),
            "ParentDir": TComp(PARENT, [ch(DOT), ch(DOT)])}.get(vn)


def text_enum_hook(ty, vn, vals):
    if ty == "Component":
        c = comp_of_enum(vn)
        if c is not None:
            return c
        if vn == "Normal":
            return TComp(NORMAL, vals[0].chars)
    return None


def tokenize(ex, st, chars):
    """std::path::Components on unix, over symbolic chars: list of (TComp, start, end)."""
    n = len(chars)
    toks = []
    i = 0
    rooted = n > 0 and ex.decide(st, is_ch(chars[0], SLASH))
    if rooted:
        toks.append((TComp(ROOT, [ch(SLASH)]), 0, 1))
        i = 1
    while i < n:
        if ex.decide(st, is_ch(chars[i], SLASH)):
            i += 1  # an empty segment: repeated separator (or the one after a component)
            continue
        j = i
        while j < n and not ex.decide(st, is_ch(chars[j], SLASH)):
            j += 1
        seg = chars[i:j]
        if len(seg) == 1 and ex.decide(st, is_ch(seg[0], DOT)):
            # '.' is kept only as the very first component of a non-rooted path
            if i == 0 and not rooted:
                toks.append((TComp(CUR, [ch(DOT)]), i, j))
        elif len(seg) == 2 and ex.decide(st, b_and(is_ch(seg[0], DOT), is_ch(seg[1], DOT))):
            toks.append((TComp(PARENT, [ch(DOT), ch(DOT)]), i, j))
        else:
            toks.append((TComp(NORMAL, seg), i, j))
        i = j
    return toks


class ComponentsT:
    """Double ended iterator over the tokens of a text; keeps the text so that as_path() works."""

    def __init__(self, chars, toks, i=0, j=None):
        self.chars, self.toks = list(chars), list(toks)
        self.i, self.j = i, len(toks) if j is None else j

    def remaining(self):
        return self.toks[self.i:self.j]

    def as_path_text(self):
        r = self.remaining()
        if not r:
            return []
        return self.chars[r[0][1]:r[-1][2]]


class PathBufT:
    """An owned path buffer: mutable text."""

    def __init__(self, chars):
        self.chars = list(chars)


def text_of(ex, st, v):
    v = _obj(ex, st, v)
    if isinstance(v, (SStr, PathBufT)):
        return v.chars
    if isinstance(v, TComp):
        return v.text
    if isinstance(v, Str) and v.s is not None:
        return [ch(ord(c)) for c in v.s]
    raise Unsupported("not a text/path value: %r" % (v,))


def push_text(ex, st, buf, p):
    """PathBuf::push(path) on unix."""
    need_sep = bool(buf.chars) and not ex.decide(st, is_ch(buf.chars[-1], SLASH))
    absolute = bool(p) and ex.decide(st, is_ch(p[0], SLASH))
    if absolute:
        buf.chars = list(p)
        return
    if need_sep:
        buf.chars.append(ch(SLASH))
    buf.chars.extend(p)


def parent_text(ex, st, chars):
    toks = tokenize(ex, st, chars)
    if not toks:
        return None
    last = toks[-1][0]
    if last.kind == ROOT:
        return None
    return ComponentsT(chars, toks, 0, len(toks) - 1).as_path_text()


def path_eq_text(ex, st, a, b):
    ta, tb = tokenize(ex, st, a), tokenize(ex, st, b)
    if len(ta) != len(tb):
        return B(False)
    return b_and(*[tcomp_eq(x[0], y[0]) for x, y in zip(ta, tb)])


def split_ext(ex, st, name):
    """rsplit_file_at_dot: (stem, ext-or-None)"""
    if len(name) == 2 and ex.decide(st, b_and(is_ch(name[0], DOT), is_ch(name[1], DOT))):
        return name, None
    for i in range(len(name) - 1, -1, -1):
        if ex.decide(st, is_ch(name[i], DOT)):
            if i == 0:
                return name, None
            return name[:i], name[i + 1:]
    return name, None



def with_extension_text(ex, st, chars, ext):
    """Path::with_extension / PathBuf::set_extension: no file name -> unchanged; otherwise the text is
    truncated right after the file stem and '.' + ext appended when ext is non-empty."""
    toks = tokenize(ex, st, chars)
    if not toks or toks[-1][0].kind != NORMAL:
        return list(chars)
    comp, start, end = toks[-1]
    stem, _ = split_ext(ex, st, comp.text)
    out = list(chars[:start + len(stem)])
    if ext:
        out += [ch(DOT)] + list(ext)
    return out


def _fin_pathbuf_text(ex, st, cont, out, rest):
    b = PathBufT([])
    for c in out:
        push_text(ex, st, b, text_of(ex, st, c))
    return b


from .models import FINISHERS  # noqa: E402
FINISHERS["pathbuf_text"] = _fin_pathbuf_text


def make_textpath_models():
    def ref_or_box(ex, st, v):
        return _last_ref(ex, st, v) if isinstance(v, (Ref, BoxRef)) else BoxRef(v)

    def m_as_ref_path(ex, st, args, callee, ty):
        v = _obj(ex, st, args[0])
        if isinstance(v, TComp):
            return BoxRef(SStr(v.text))
        if isinstance(v, Str) and v.s is not None:
            return BoxRef(SStr(text_of(ex, st, v)))
        return ref_or_box(ex, st, args[0])

    def m_components(ex, st, args, callee, ty):
        c = text_of(ex, st, args[0])
        return ComponentsT(c, tokenize(ex, st, c))

    def m_next(ex, st, args, callee, ty):
        it = _obj(ex, st, args[0])
        if isinstance(it, VecM):  # generic `<T as Iterator>::next` on a list-like iterator (Matches, Chars, ...)
            return opt_some(ex, it.items.pop(0)) if it.items else opt_none(ex)
        if it.i < it.j:
            it.i += 1
            return opt_some(ex, it.toks[it.i - 1][0])
        return opt_none(ex)

    def m_next_back(ex, st, args, callee, ty):
        it = _obj(ex, st, args[0])
        if it.i < it.j:
            it.j -= 1
            return opt_some(ex, it.toks[it.j][0])
        return opt_none(ex)

    def m_last(ex, st, args, callee, ty):
        it = _obj(ex, st, args[0])
        r = it.remaining()
        return opt_some(ex, r[-1][0]) if r else opt_none(ex)

    def m_count(ex, st, args, callee, ty):
        return BV(64, False, len(_obj(ex, st, args[0]).remaining()))

    def m_nth(ex, st, args, callee, ty):
        it = _obj(ex, st, args[0])
        n = args[1]
        if not n.concrete:
            raise Unsupported("Components::nth with a symbolic index")
        k = n.v
        if it.i + k < it.j:
            it.i += k + 1
            return opt_some(ex, it.toks[it.i - 1][0])
        it.i = it.j
        return opt_none(ex)

    class RevT:
        def __init__(self, inner):
            self.inner = inner  # reference to the ComponentsT (by_ref semantics keep aliasing)

    def m_rev(ex, st, args, callee, ty):
        return RevT(args[0])

    def m_rev_nth(ex, st, args, callee, ty):
        rv = _obj(ex, st, args[0])
        it = _obj(ex, st, rv.inner)
        n = args[1]
        if not n.concrete:
            raise Unsupported("Rev<Components>::nth with a symbolic index")
        k = n.v
        if it.j - k > it.i:
            it.j -= k + 1
            return opt_some(ex, it.toks[it.j][0])
        it.j = it.i
        return opt_none(ex)

    def m_rev_next(ex, st, args, callee, ty):
        rv = _obj(ex, st, args[0])
        return m_next_back(ex, st, [rv.inner], callee, ty)

    def m_as_path(ex, st, args, callee, ty):
        return BoxRef(SStr(_obj(ex, st, args[0]).as_path_text()))

    def m_identity(ex, st, args, callee, ty):
        return args[0]

    def m_clone_components(ex, st, args, callee, ty):
        it = _obj(ex, st, args[0])
        return ComponentsT(it.chars, it.toks, it.i, it.j)

    def m_comp_eq(ex, st, args, callee, ty):
        return tcomp_eq(_obj(ex, st, args[0]), _obj(ex, st, args[1]))

    def m_pathbuf_new(ex, st, args, callee, ty):
        return PathBufT([])

    def m_push(ex, st, args, callee, ty):
        buf = _obj(ex, st, args[0])
        push_text(ex, st, buf, text_of(ex, st, args[1]))
        return UNIT

    def m_pop(ex, st, args, callee, ty):
        buf = _obj(ex, st, args[0])
        p = parent_text(ex, st, buf.chars)
        if p is None:
            return B(False)
        buf.chars = list(p)
        return B(True)

    def m_parent(ex, st, args, callee, ty):
        p = parent_text(ex, st, text_of(ex, st, args[0]))
        return opt_none(ex) if p is None else opt_some(ex, BoxRef(SStr(p)))

    def m_to_path_buf(ex, st, args, callee, ty):
        return PathBufT(text_of(ex, st, args[0]))

    def m_deref(ex, st, args, callee, ty):
        return ref_or_box(ex, st, args[0])

    def m_join(ex, st, args, callee, ty):
        buf = PathBufT(text_of(ex, st, args[0]))
        push_text(ex, st, buf, text_of(ex, st, args[1]))
        return buf

    def m_collect_pathbuf(ex, st, args, callee, ty):
        it = _obj(ex, st, args[0])
        buf = PathBufT([])
        if isinstance(it, ComponentsT):
            items = [t[0] for t in it.remaining()]
            it.i = it.j
        elif isinstance(it, VecM):
            items = [_obj(ex, st, x) for x in it.items]
        elif isinstance(it, LazyIter):
            return DrainCont(it, "pathbuf_text").start(ex, st)
        else:
            raise Unsupported("collect::<PathBuf> from %r" % (it,))
        for c in items:
            push_text(ex, st, buf, text_of(ex, st, c))
        return buf

    def m_path_eq(ex, st, args, callee, ty):
        return path_eq_text(ex, st, text_of(ex, st, args[0]), text_of(ex, st, args[1]))

    def m_path_ne(ex, st, args, callee, ty):
        return b_not(m_path_eq(ex, st, args, callee, ty))

    def m_file_name(ex, st, args, callee, ty):
        toks = tokenize(ex, st, text_of(ex, st, args[0]))
        if toks and toks[-1][0].kind == NORMAL:
            return opt_some(ex, BoxRef(SStr(toks[-1][0].text)))
        return opt_none(ex)

    def m_extension(ex, st, args, callee, ty):
        toks = tokenize(ex, st, text_of(ex, st, args[0]))
        if toks and toks[-1][0].kind == NORMAL:
            stem, e = split_ext(ex, st, toks[-1][0].text)
            if e is not None:
                return opt_some(ex, BoxRef(SStr(e)))
        return opt_none(ex)

    def m_file_stem(ex, st, args, callee, ty):
        toks = tokenize(ex, st, text_of(ex, st, args[0]))
        if toks and toks[-1][0].kind == NORMAL:
            stem, e = split_ext(ex, st, toks[-1][0].text)
            return opt_some(ex, BoxRef(SStr(stem)))
        return opt_none(ex)

    def m_with_extension(ex, st, args, callee, ty):
        return PathBufT(with_extension_text(ex, st, text_of(ex, st, args[0]), text_of(ex, st, args[1])))

    def m_starts_with(ex, st, args, callee, ty):
        """Path::starts_with / ends_with: component-wise prefix / suffix"""
        a = [t[0] for t in tokenize(ex, st, text_of(ex, st, args[0]))]
        b = [t[0] for t in tokenize(ex, st, text_of(ex, st, args[1]))]
        if len(b) > len(a):
            return B(False)
        part = a[:len(b)] if "starts_with" in callee else a[len(a) - len(b):]
        return b_and(*[tcomp_eq(x, y) for x, y in zip(part, b)]) if b else B(True)

    def m_to_str(ex, st, args, callee, ty):
        return opt_some(ex, BoxRef(SStr(text_of(ex, st, args[0]))))

    def m_has_root(ex, st, args, callee, ty):
        c = text_of(ex, st, args[0])
        return is_ch(c[0], SLASH) if c else B(False)

    def m_is_relative(ex, st, args, callee, ty):
        return b_not(m_has_root(ex, st, args, callee, ty))

    def m_as_os_str(ex, st, args, callee, ty):
        return BoxRef(SStr(text_of(ex, st, args[0])))

    def m_vec_new(ex, st, args, callee, ty):
        return VecM()

    def m_vec_push(ex, st, args, callee, ty):
        _obj(ex, st, args[0]).items.append(args[1])
        return UNIT

    def m_vec_is_empty(ex, st, args, callee, ty):
        return B(len(_obj(ex, st, args[0]).items) == 0)

    def m_vec_extend(ex, st, args, callee, ty):
        v, it = _obj(ex, st, args[0]), _obj(ex, st, args[1])
        v.items.extend(t[0] for t in it.remaining())
        it.i = it.j
        return UNIT

    def m_slice_iter(ex, st, args, callee, ty):
        return VecM(_obj(ex, st, args[0]).items)

    def m_opt_unwrap(ex, st, args, callee, ty):
        o = args[0]
        if o.variant == 0:
            raise Panic("called `Option::unwrap()` on a `None` value")
        return o.fields[0]

    def m_main_sep_to_string(ex, st, args, callee, ty):
        return SStr([ch(SLASH)])

    C = r"(?:Components<'_>|T)"
    return [
        (rx(r"^<.* as AsRef<Path>>::as_ref$"), m_as_ref_path),
        (rx(r"^<.* as AsRef<OsStr>>::as_ref$"), m_as_ref_path),
        (rx(r"^Path::new::<.*>$"), m_as_ref_path),
        (rx(r"^Path::components$"), m_components),
        (rx(r"^<%s as IntoIterator>::into_iter$" % C), m_identity),
        (rx(r"^<%s as Iterator>::by_ref$" % C), m_identity),
        (rx(r"^<%s as Clone>::clone$" % C), m_clone_components),
        (rx(r"^<%s as Iterator>::next$" % C), m_next),
        (rx(r"^<%s as DoubleEndedIterator>::next_back$" % C), m_next_back),
        (rx(r"^<%s as Iterator>::last$" % C), m_last),
        (rx(r"^<%s as Iterator>::count$" % C), m_count),
        (rx(r"^<%s as Iterator>::nth$" % C), m_nth),
        (rx(r"^<&mut %s as Iterator>::rev$" % C), m_rev),
        (rx(r"^<%s as Iterator>::rev$" % C), m_rev),
        (rx(r"^<Rev<&mut %s> as Iterator>::nth$" % C), m_rev_nth),
        (rx(r"^<Rev<%s> as Iterator>::nth$" % C), m_rev_nth),
        (rx(r"^<&mut %s as Iterator>::peekable$" % C), m_identity),
        (rx(r"^<Rev<&mut %s> as Iterator>::next$" % C), m_rev_next),
        (rx(r"^Components::<'_>::as_path$"), m_as_path),
        (rx(r"^<Component<'_> as PartialEq>::eq$"), m_comp_eq),
        (rx(r"^<U as PartialEq<T>>::eq$"), m_comp_eq),
        (rx(r"^Component::<'_>::as_os_str$"), m_as_os_str),
        (rx(r"^Option::<Component<'_>>::unwrap$"), m_opt_unwrap),
        (rx(r"^PathBuf::new$"), m_pathbuf_new),
        (rx(r"^PathBuf::push::<.*>$"), m_push),
        (rx(r"^PathBuf::pop$"), m_pop),
        (rx(r"^Path::parent$"), m_parent),
        (rx(r"^Path::to_path_buf$"), m_to_path_buf),
        (rx(r"^<Path as ToOwned>::to_owned$"), m_to_path_buf),
        (rx(r"^<PathBuf as From<(&str|String|&String|&Path|&OsStr|OsString)>>::from$"), m_to_path_buf),
        (rx(r"^<T as Into<PathBuf>>::into$"), m_to_path_buf),
        (rx(r"^<PathBuf as Clone>::clone$"), m_to_path_buf),
        (rx(r"^<PathBuf as Deref>::deref$"), m_deref),
        (rx(r"^PathBuf::as_path$"), m_deref),
        (rx(r"^Path::join::<.*>$"), m_join),
        (rx(r"^<%s as Iterator>::collect::<PathBuf>$" % C), m_collect_pathbuf),
        (rx(r"^<(?:std::slice::)?Iter<'_, Component<'_>> as Iterator>::collect::<PathBuf>$"), m_collect_pathbuf),
        (rx(r"^<(?:std::iter::)?(Map|Filter|SkipWhile|TakeWhile|Take|Skip|Chain)<.*> as Iterator>::collect::<PathBuf>$"), m_collect_pathbuf),
        (rx(r"^<&Component<'_> as PartialEq>::eq$"), m_comp_eq),
        (rx(r"^<(&Path|Path|PathBuf|&PathBuf) as PartialEq(<.*>)?>::eq$"), m_path_eq),
        (rx(r"^<(&Path|Path|PathBuf|&PathBuf) as PartialEq(<.*>)?>::ne$"), m_path_ne),
        (rx(r"^Path::file_name$"), m_file_name),
        (rx(r"^Path::extension$"), m_extension),
        (rx(r"^Path::file_stem$"), m_file_stem),
        (rx(r"^Path::(starts_with|ends_with)::<.*>$"), m_starts_with),
        (rx(r"^Path::to_str$"), m_to_str),
        (rx(r"^OsStr::to_str$"), m_to_str),
        (rx(r"^Path::has_root$"), m_has_root),
        (rx(r"^Path::is_absolute$"), m_has_root),
        (rx(r"^Path::is_relative$"), m_is_relative),
        (rx(r"^Vec::<Component<'_>>::new$"), m_vec_new),
        (rx(r"^Vec::<Component<'_>>::push$"), m_vec_push),
        (rx(r"^Vec::<Component<'_>>::is_empty$"), m_vec_is_empty),
        (rx(r"^<Vec<Component<'_>> as Extend<Component<'_>>>::extend::<&mut %s>$" % C), m_vec_extend),
        (rx(r"^<Vec<Component<'_>> as Deref>::deref$"), m_deref),
        (rx(r"^(?:core::slice::)?<impl \[Component<'_>\]>::iter$"), m_slice_iter),
        (rx(r"^<char as ToString>::to_string$"), m_main_sep_to_string),
    ]


# ------------------------------------------------------------------------------------------------
# Go's path.Clean over (possibly symbolic) chars: the independent string-level oracle for C14
# ------------------------------------------------------------------------------------------------
def go_clean_text(ex, st, path):
    n = len(path)
    if n == 0:
        return [ch(DOT)]
    isc = lambda c, k: ex.decide(st, is_ch(c, k))
    rooted = isc(path[0], SLASH)
    out = []
    r, dotdot = 0, 0
    if rooted:
        out.append(ch(SLASH))
        r, dotdot = 1, 1
    while r < n:
        if isc(path[r], SLASH):
            r += 1
        elif isc(path[r], DOT) and (r + 1 == n or isc(path[r + 1], SLASH)):
            r += 1
        elif isc(path[r], DOT) and isc(path[r + 1], DOT) and (r + 2 == n or isc(path[r + 2], SLASH)):
            r += 2
            if len(out) > dotdot:
                w = len(out) - 1
                while w > dotdot and not isc(out[w], SLASH):
                    w -= 1
                out = out[:w]
            elif not rooted:
                if len(out) > 0:
                    out.append(ch(SLASH))
                out += [ch(DOT), ch(DOT)]
                dotdot = len(out)
        else:
            if (rooted and len(out) != 1) or (not rooted and len(out) != 0):
                out.append(ch(SLASH))
            while r < n and not isc(path[r], SLASH):
                out.append(path[r])
                r += 1
    if not out:
        return [ch(DOT)]
    return out
