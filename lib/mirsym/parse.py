"""Parser for the textual MIR printed by `rustc -Zunpretty=mir` (the subset rivia's target functions use).

Anything this parser does not understand raises MirError naming the construct: the checker fails
*closed* (exit 2), it never guesses."""
import re


class MirError(Exception):
    pass


# ------------------------------------------------------------------------------------------------
# AST
# ------------------------------------------------------------------------------------------------
class Place:
    __slots__ = ("local", "proj")

    def __init__(self, local, proj=()):
        self.local = local
        self.proj = tuple(proj)  # each: ('deref',) | ('field', n) | ('downcast', name) | ('index', local)

    def __repr__(self):
        return "Place(%s%s)" % (self.local, "".join("." + ":".join(str(x) for x in p) for p in self.proj))


class Operand:
    __slots__ = ("kind", "place", "const")

    def __init__(self, kind, place=None, const=None):
        self.kind = kind  # 'copy' | 'move' | 'const'
        self.place = place
        self.const = const

    def __repr__(self):
        return "%s %s" % (self.kind, self.place if self.place is not None else self.const)


class Rvalue:
    __slots__ = ("kind", "args", "extra")

    def __init__(self, kind, args=(), extra=None):
        self.kind = kind  # use | ref | discriminant | binop | unop | cast | aggregate | tuple | array | len | raw
        self.args = list(args)
        self.extra = extra

    def __repr__(self):
        return "Rvalue(%s %s %s)" % (self.kind, self.extra, self.args)


class Stmt:
    __slots__ = ("place", "rvalue", "text")

    def __init__(self, place, rvalue, text):
        self.place, self.rvalue, self.text = place, rvalue, text


class Term:
    __slots__ = ("kind", "data", "text")

    def __init__(self, kind, data, text):
        self.kind, self.data, self.text = kind, data, text


class Block:
    def __init__(self, name, cleanup):
        self.name, self.cleanup, self.stmts, self.term = name, cleanup, [], None


class Function:
    immutable = True  # shared between cloned states

    def __init__(self, name, header, line):
        self.name, self.header, self.line = name, header, line
        self.params = []  # (local, type)
        self.ret = None
        self.locals = {}  # local -> type text
        self.blocks = {}
        self.is_promoted = False
        self.debug = []  # (source name, place text) of `debug name => place;` lines

    def __repr__(self):
        return "Function(%s @%d)" % (self.name, self.line)


# ------------------------------------------------------------------------------------------------
# text helpers
# ------------------------------------------------------------------------------------------------
OPEN, CLOSE = "([{<", ")]}>"


def split_top(s, sep=","):
    """Split on `sep` at bracket depth 0 (string/char literals respected; `->` is not a bracket)."""
    out, depth, cur, i, n = [], 0, [], 0, len(s)
    while i < n:
        c = s[i]
        if c == '"':
            j = i + 1
            while j < n and s[j] != '"':
                j += 2 if s[j] == "\\" else 1
            cur.append(s[i:j + 1])
            i = j + 1
            continue
        if c == "'" and i + 2 < n:
            # char literal 'x' or '\n' (lifetimes like '_ have no closing quote nearby)
            m = re.match(r"'(\\.|\\u\{[0-9a-fA-F]+\}|[^'\\])'", s[i:])
            if m:
                cur.append(m.group(0))
                i += len(m.group(0))
                continue
        if c == "-" and i + 1 < n and s[i + 1] == ">":
            cur.append("->")
            i += 2
            continue
        if c in OPEN:
            depth += 1
        elif c in CLOSE:
            depth -= 1
        if c == sep and depth == 0:
            out.append("".join(cur).strip())
            cur = []
        else:
            cur.append(c)
        i += 1
    last = "".join(cur).strip()
    if last or out:
        out.append(last)
    return [x for x in out if x != ""] if sep == "," else out


def match_close(s, i):
    """s[i] is an opening bracket; returns index of its match."""
    depth, n = 0, len(s)
    j = i
    while j < n:
        c = s[j]
        if c == '"':
            j += 1
            while j < n and s[j] != '"':
                j += 2 if s[j] == "\\" else 1
        elif c == "'":
            m = re.match(r"'(\\.|\\u\{[0-9a-fA-F]+\}|[^'\\])'", s[j:])
            if m:
                j += len(m.group(0)) - 1
        elif c == "-" and j + 1 < n and s[j + 1] == ">":
            j += 1
        elif c in OPEN:
            depth += 1
        elif c in CLOSE:
            depth -= 1
            if depth == 0:
                return j
        j += 1
    raise MirError("unbalanced brackets in: " + s)


def parse_place(s):
    s = s.strip()
    m = re.fullmatch(r"_(\d+)", s)
    if m:
        return Place(s)
    if s.startswith("(*") and match_close(s, 0) == len(s) - 1:
        inner = parse_place(s[2:-1])
        return Place(inner.local, inner.proj + (("deref",),))
    if s.startswith("(") and match_close(s, 0) == len(s) - 1:
        body = s[1:-1]
        # (PLACE as Variant)
        m = re.fullmatch(r"(.*) as (\w+)", body)
        if m and ":" not in m.group(2):
            try:
                inner = parse_place(m.group(1))
                return Place(inner.local, inner.proj + (("downcast", m.group(2)),))
            except MirError:
                pass
        # (PLACE.N: TYPE)
        # find the place part: it is either _N, or a parenthesised place
        if body.startswith("("):
            j = match_close(body, 0)
            inner_txt, rest = body[:j + 1], body[j + 1:]
        else:
            m2 = re.match(r"_\d+", body)
            if not m2:
                raise MirError("unparsable place: " + s)
            inner_txt, rest = m2.group(0), body[m2.end():]
        m3 = re.match(r"\.(\d+): ", rest)
        if m3:
            inner = parse_place(inner_txt)
            return Place(inner.local, inner.proj + (("field", int(m3.group(1))),))
        raise MirError("unparsable place: " + s)
    m = re.fullmatch(r"(.*)\[(_\d+)\]", s)
    if m:
        inner = parse_place(m.group(1))
        return Place(inner.local, inner.proj + (("index", m.group(2)),))
    m = re.fullmatch(r"(.*)\[(\d+) of (\d+)\]", s)
    if m:
        inner = parse_place(m.group(1))
        return Place(inner.local, inner.proj + (("constindex", int(m.group(2))),))
    raise MirError("unparsable place: " + s)


def parse_operand(s):
    s = s.strip()
    if s.startswith("copy "):
        return Operand("copy", parse_place(s[5:]))
    if s.startswith("move "):
        return Operand("move", parse_place(s[5:]))
    if s.startswith("const "):
        return Operand("const", const=s[6:].strip())
    if s.startswith("no_retag "):
        return parse_operand(s[9:])
    # a function item used as a value (`.map(PathBuf::from)`) is printed bare
    if re.fullmatch(r"[\w:<>&'\[\] ,()]+", s) and "::" in s and not s.startswith("_"):
        return Operand("const", const="fnitem " + s)
    raise MirError("unparsable operand: " + s)


BINOPS = {"Eq", "Ne", "Lt", "Le", "Gt", "Ge", "Add", "Sub", "Mul", "Div", "Rem", "BitAnd", "BitOr", "BitXor", "Shl",
          "Shr", "AddWithOverflow", "SubWithOverflow", "MulWithOverflow", "AddUnchecked", "SubUnchecked",
          "MulUnchecked", "ShlUnchecked", "ShrUnchecked", "Offset", "Cmp"}
UNOPS = {"Not", "Neg", "PtrMetadata"}


def parse_rvalue(s):
    s = s.strip()
    if s.startswith("{closure@") or s.startswith("{coroutine@"):
        j = match_close(s, 0)
        head, rest = s[:j + 1], s[j + 1:].strip()
        ops, names = [], []
        if rest.startswith("{"):
            for part in split_top(rest[1:-1]):
                k, v = part.split(":", 1)
                names.append(k.strip())
                ops.append(parse_operand(v))
        return Rvalue("closure", ops, (head, names))
    if s.startswith(("copy ", "move ", "const ", "no_retag ")):
        # could be a cast: `copy _1 as u64 (IntToInt)`
        m = re.fullmatch(r"((?:copy|move|const) .*?) as (.+?) \((\w+(?:\([^)]*\))?)\)", s)
        if m:
            return Rvalue("cast", [parse_operand(m.group(1))], (m.group(2), m.group(3)))
        return Rvalue("use", [parse_operand(s)])
    if s.startswith("&raw "):
        m = re.match(r"&raw (const|mut) (.*)", s)
        return Rvalue("ref", [parse_place(m.group(2))], "raw")
    if s.startswith("&mut "):
        return Rvalue("ref", [parse_place(s[5:])], "mut")
    if s.startswith("&"):
        t = s[1:].strip()
        if t.startswith("fake "):
            t = t[5:]
            t = re.sub(r"^(shallow|deep) ", "", t)
        return Rvalue("ref", [parse_place(t)], "shared")
    m = re.fullmatch(r"discriminant\((.*)\)", s)
    if m:
        return Rvalue("discriminant", [parse_place(m.group(1))])
    m = re.fullmatch(r"Len\((.*)\)", s)
    if m:
        return Rvalue("len", [parse_place(m.group(1))])
    m = re.match(r"(\w+)\(", s)
    if m and s.endswith(")") and match_close(s, m.end() - 1) == len(s) - 1:
        name, inner = m.group(1), s[m.end():-1]
        if name in BINOPS:
            a, b = split_top(inner)
            return Rvalue("binop", [parse_operand(a), parse_operand(b)], name)
        if name in UNOPS:
            return Rvalue("unop", [parse_operand(inner)], name)
    if s.startswith("(") and match_close(s, 0) == len(s) - 1:
        parts = split_top(s[1:-1])
        return Rvalue("tuple", [parse_operand(p) for p in parts])
    if s.startswith("[") and match_close(s, 0) == len(s) - 1:
        inner = s[1:-1]
        if ";" in inner and len(split_top(inner, ";")) == 2:
            a, b = split_top(inner, ";")
            return Rvalue("repeat", [parse_operand(a)], b.strip())
        return Rvalue("array", [parse_operand(p) for p in split_top(inner)])
    # aggregates: Path::<..>::Variant(ops) | Path::Variant | Struct { f: op, .. }
    if s.endswith(")"):
        # find the opening paren matching the last ')'
        depth = 0
        for i in range(len(s) - 1, -1, -1):
            if s[i] in CLOSE and not (s[i] == ">" and i > 0 and s[i - 1] == "-"):
                depth += 1
            elif s[i] in OPEN:
                depth -= 1
                if depth == 0:
                    break
        head, inner = s[:i], s[i + 1:-1]
        return Rvalue("aggregate", [parse_operand(p) for p in split_top(inner)], head.strip())
    if s.endswith("}"):
        i = s.index("{")
        head, inner = s[:i].strip(), s[i + 1:-1]
        fields = []
        for part in split_top(inner):
            k, v = part.split(":", 1)
            fields.append((k.strip(), parse_operand(v)))
        return Rvalue("struct", [v for _, v in fields], (head, [k for k, _ in fields]))
    if re.fullmatch(r"[\w:<>'_, &\[\]]+", s):
        return Rvalue("aggregate", [], s)
    # unit variant / unit struct with elaborate generic arguments: `Option::<Box<dyn for<'a> FnMut(..) -> ..>>::None`
    if re.match(r"^[\w:]+::<", s) and re.search(r">::\w+$", s):
        return Rvalue("aggregate", [], s)
    raise MirError("unparsable rvalue: " + s)


def parse_targets(s):
    """`[0: bb1, 1: bb2, otherwise: bb3]` or `[return: bb1, unwind continue]`."""
    s = s.strip()
    assert s.startswith("[") and s.endswith("]"), s
    out = {}
    for part in split_top(s[1:-1]):
        if ":" in part:
            k, v = part.split(":", 1)
            out[k.strip()] = v.strip()
        else:
            k = part.split()[0]
            out[k] = part[len(k):].strip()
    return out


def parse_statement(line):
    """Returns Stmt or Term."""
    t = line.strip()
    assert t.endswith(";"), t
    t = t[:-1]
    if t.startswith(("StorageLive(", "StorageDead(", "nop", "FakeRead(", "PlaceMention(", "Retag(", "AscribeUserType(",
                     "Coverage", "ConstEvalCounter", "BackwardIncompatibleDropHint")):
        return None
    if t.startswith("goto -> "):
        return Term("goto", t[8:].strip(), t)
    if t == "return":
        return Term("return", None, t)
    if t == "unreachable":
        return Term("unreachable", None, t)
    if t.startswith("resume") or t.startswith("terminate") or t.startswith("abort"):
        return Term("resume", None, t)
    if t.startswith("switchInt("):
        j = match_close(t, len("switchInt"))
        op = parse_operand(t[len("switchInt("):j])
        tg = parse_targets(t[j + 1:].strip()[2:].strip())
        return Term("switch", (op, tg), t)
    if t.startswith("drop("):
        j = match_close(t, 4)
        tg = parse_targets(t[j + 1:].strip()[2:].strip())
        return Term("drop", (parse_place(t[5:j]), tg), t)
    if t.startswith("assert("):
        j = match_close(t, 6)
        args = split_top(t[7:j])
        cond = args[0]
        expected = True
        if cond.startswith("!"):
            expected, cond = False, cond[1:]
        tg = parse_targets(t[j + 1:].strip()[2:].strip())
        return Term("assert", (parse_operand(cond), expected, args[1] if len(args) > 1 else "", tg), t)
    if " = " in t:
        if t.startswith("("):
            # `((*_1).3: Box<dyn Iterator<Item = T>>) = …`: the place is parenthesised and its type may contain " = "
            j0 = match_close(t, 0)
            k0 = t.index(" = ", j0)
            lhs, rhs = t[:k0], t[k0 + 3:]
        else:
            lhs, rhs = t.split(" = ", 1)
        # call terminator?  `callee(args) -> [return: bbN, unwind ...]`  (also `-> unwind continue`)
        m = re.search(r"\) -> (\[.*\]|unwind .*|bb\d+)$", rhs)  # `-> bbN` alone: a diverging call, bbN is its cleanup block
        if m:
            call = rhs[:m.start() + 1]
            tg = parse_targets(m.group(1)) if m.group(1).startswith("[") else {}
            # find the paren matching the final ')'
            depth = 0
            i = len(call) - 1
            k = i
            while k >= 0:
                c = call[k]
                if c in CLOSE and not (c == ">" and k > 0 and call[k - 1] == "-"):
                    depth += 1
                elif c in OPEN:
                    depth -= 1
                    if depth == 0:
                        break
                k -= 1
            callee, argtxt = call[:k].strip(), call[k + 1:-1]
            args = [parse_operand(a) for a in split_top(argtxt)]
            return Term("call", (parse_place(lhs), callee, args, tg), t)
        return Stmt(parse_place(lhs), parse_rvalue(rhs), t)
    raise MirError("unparsable statement: " + t)


RE_FN = re.compile(r"^fn (.*?)\((.*)\) -> (.*) \{$|^fn (.*?)\((.*)\) \{$")
RE_PROMOTED = re.compile(r"^const (.*)::promoted\[(\d+)\]: (.*) = \{$")
RE_LOCAL = re.compile(r"^\s*let (?:mut )?(_\d+): (.*);$")
RE_BB = re.compile(r"^\s*(bb\d+)( \(cleanup\))?: \{$")


class Mir:
    def __init__(self, path):
        self.functions = []
        self.lines = open(path).read().split("\n")
        self._index()

    def _index(self):
        """Only headers are indexed eagerly; bodies are parsed on demand (parse errors surface only for
        functions that are actually executed)."""
        self.headers = []
        for i, l in enumerate(self.lines):
            if l.startswith("fn "):
                self.headers.append((i, l, False))
            elif l.startswith("const ") and "::promoted[" in l and l.endswith("{"):
                self.headers.append((i, l, True))
        self._cache = {}

    def find(self, regex, promoted=False):
        r = re.compile(regex)
        return [i for i, l, p in self.headers if p == promoted and r.search(l)]

    def function_at(self, lineno):
        if lineno in self._cache:
            return self._cache[lineno]
        l = self.lines[lineno]
        mp = RE_PROMOTED.match(l)
        if mp:
            f = Function("%s::promoted[%s]" % (mp.group(1), mp.group(2)), l, lineno)
            f.is_promoted = True
            f.ret = mp.group(3)
        else:
            m = RE_FN.match(l)
            if not m:
                raise MirError("unparsable function header: " + l)
            name, params, ret = (m.group(1), m.group(2), m.group(3)) if m.group(1) is not None else (
                m.group(4), m.group(5), "()")
            f = Function(name, l, lineno)
            f.ret = ret
            for p in split_top(params):
                k, v = p.split(":", 1)
                f.params.append((k.strip(), v.strip()))
                f.locals[k.strip()] = v.strip()
        i = lineno + 1
        cur = None
        while i < len(self.lines):
            t = self.lines[i]
            if t == "}":
                break
            ml = RE_LOCAL.match(t)
            mb = RE_BB.match(t)
            s = t.strip()
            if cur is None and s.startswith("debug ") and " => " in s:
                dn, dp = s[6:].rstrip(";").split(" => ", 1)
                f.debug.append((dn.strip(), dp.strip()))
            if ml and cur is None:
                f.locals[ml.group(1)] = ml.group(2)
            elif mb:
                cur = Block(mb.group(1), bool(mb.group(2)))
                f.blocks[cur.name] = cur
            elif cur is not None and s == "}":
                cur = None
            elif cur is not None and s:
                if cur.cleanup:
                    pass  # unwinding paths are outside every claim (stated)
                else:
                    # a statement may span a single line only in this dump
                    st = parse_statement(s)
                    if isinstance(st, Term):
                        cur.term = st
                    elif st is not None:
                        cur.stmts.append(st)
            i += 1
        self._cache[lineno] = f
        return f

    def get(self, regex, promoted=False):
        hits = self.find(regex, promoted)
        if len(hits) != 1:
            raise MirError("function lookup %r matched %d headers" % (regex, len(hits)))
        return self.function_at(hits[0])
