"""std models needed to execute Memfs operations from their MIR: Arc / RwLock / guards, HashMap keyed by
paths (component-wise key equality decided by the solver), HashSet<String>, Box<dyn Trait> dispatch to
the concrete rivia type, drop glue for MemfsFile."""
import re

from .engine import CallBack, FnItem, Identity, Panic, Unsupported, Yield
from .models import SStr, VecM, _last_ref, _obj, opt_none, opt_some, rx, sstr_of
from .textpath import PathBufT, path_eq_text, text_of
from .values import B, BV, I, UNIT, Adt, BoxRef, Ref, Str, b_and


class MapM:
    """HashMap<PathBuf, V>: association list; key equality is Path equality (component-wise)."""

    def __init__(self, items=()):
        self.items = list(items)  # [(key chars, BoxRef(value))]

    def find(self, ex, st, key):
        for i, (k, v) in enumerate(self.items):
            if ex.decide(st, path_eq_text(ex, st, k, key)):
                return i
        return None


class LockM:
    """State of one RwLock: which thread holds the write lock, how many read guards each thread holds."""

    def __init__(self):
        self.writer = None
        self.readers = {}

    def free(self):
        return self.writer is None and not any(self.readers.values())


class GuardTok:
    def __init__(self):
        self.released = False


class Blocked(Exception):
    """raised by lock acquisition when another thread holds the lock (multi-thread exploration)"""

    def __init__(self, lock):
        self.lock = lock


class SetM:
    """HashSet<String>: list of texts; equality is string equality."""

    def __init__(self, items=()):
        self.items = list(items)

    def find(self, ex, st, s):
        from .models import chars_eq
        for i, t in enumerate(self.items):
            if len(t) == len(s) and ex.decide(st, chars_eq(t, s) if s else B(True)):
                return i
        return None


def make_mem_models():
    def ref_of(ex, st, v):
        return _last_ref(ex, st, v) if isinstance(v, (Ref, BoxRef)) else BoxRef(v)

    def m_deref(ex, st, args, callee, ty):
        """Arc / guards deref to their content: these wrappers are transparent here (single thread)"""
        v = _obj(ex, st, args[0])
        while isinstance(v, Adt) and v.ty in ("Arc", "RwLock", "RwLockReadGuard", "RwLockWriteGuard") and v.fields:
            inner = v.fields[0]
            if isinstance(inner, (Ref, BoxRef)):
                return inner
            v = inner
        return ref_of(ex, st, args[0])

    def m_lock(ex, st, args, callee, ty):
        lock = args[0]
        lk = None
        while isinstance(_obj(ex, st, lock), Adt) and _obj(ex, st, lock).ty in ("Arc", "RwLock"):
            o = _obj(ex, st, lock)
            if o.ty == "RwLock" and len(o.fields) > 1:
                lk = o.fields[1]
            lock = o.fields[0]
        write = callee.endswith("::write")
        tid = st.meta.get("tid", 0)
        if lk is not None and st.meta.get("sched") and not st.meta.get("granted"):
            raise Yield(dict(lock=lk, write=write, tid=tid))
        st.meta["granted"] = False
        if lk is not None:
            mine_r = lk.readers.get(tid, 0)
            others_r = sum(v for k, v in lk.readers.items() if k != tid)
            if lk.writer == tid or (write and mine_r > 0):
                raise Panic("deadlock: thread %s acquires the filesystem lock (%s) while it already holds it" % (tid, "write" if write else "read"))
            if mine_r > 0:
                # std::sync::RwLock: a recursive read may deadlock as soon as a writer is queued between the two acquisitions
                # (writer-preferring implementations); the documentation tells callers not to do it
                raise Panic("deadlock: thread %s re-acquires the filesystem read lock while it already holds a read guard "
                            "(std::sync::RwLock: recursive read locks deadlock once a writer is waiting)" % tid)
            if lk.writer is not None or (write and others_r > 0):
                raise Blocked(lk)
            if write:
                lk.writer = tid
            else:
                lk.readers[tid] = mine_r + 1
        kind = "RwLockWriteGuard" if write else "RwLockReadGuard"
        return Adt("Result", 0, "Ok", [Adt(kind, None, None, [lock, lk, GuardTok()])])

    def m_unwrap(ex, st, args, callee, ty):
        r = args[0]
        if r.variant == 1:
            raise Panic("called `Result::unwrap()` on an `Err` value (poisoned lock)")
        return r.fields[0]

    def m_arc_clone(ex, st, args, callee, ty):
        return _obj(ex, st, args[0])  # shared ownership: the same cell

    def m_arc_new(ex, st, args, callee, ty):
        return Adt("Arc", None, None, [BoxRef(args[0])])

    def m_rwlock_new(ex, st, args, callee, ty):
        return Adt("RwLock", None, None, [BoxRef(args[0]), LockM()])

    # ---- HashMap<PathBuf, V>
    def m_map_new(ex, st, args, callee, ty):
        return MapM()

    def m_map_contains(ex, st, args, callee, ty):
        m = _obj(ex, st, args[0])
        return B(m.find(ex, st, text_of(ex, st, args[1])) is not None)

    def m_map_get(ex, st, args, callee, ty):
        m = _obj(ex, st, args[0])
        i = m.find(ex, st, text_of(ex, st, args[1]))
        return opt_none(ex) if i is None else opt_some(ex, m.items[i][1])

    def m_map_insert(ex, st, args, callee, ty):
        m = _obj(ex, st, args[0])
        key = text_of(ex, st, args[1])
        i = m.find(ex, st, key)
        if i is None:
            m.items.append((list(key), BoxRef(args[2])))
            return opt_none(ex)
        old = m.items[i][1].obj
        m.items[i][1].obj = args[2]
        return opt_some(ex, old)

    def m_map_remove(ex, st, args, callee, ty):
        m = _obj(ex, st, args[0])
        i = m.find(ex, st, text_of(ex, st, args[1]))
        if i is None:
            return opt_none(ex)
        k, v = m.items.pop(i)
        return opt_some(ex, v.obj)

    def m_map_len(ex, st, args, callee, ty):
        return BV(64, False, len(_obj(ex, st, args[0]).items))

    # ---- HashSet<String>
    def m_set_new(ex, st, args, callee, ty):
        return SetM()

    def m_set_insert(ex, st, args, callee, ty):
        s = _obj(ex, st, args[0])
        t = sstr_of(ex, st, args[1]).chars
        if s.find(ex, st, t) is not None:
            return B(False)
        s.items.append(list(t))
        return B(True)

    def m_set_remove(ex, st, args, callee, ty):
        s = _obj(ex, st, args[0])
        i = s.find(ex, st, sstr_of(ex, st, args[1]).chars)
        if i is None:
            return B(False)
        s.items.pop(i)
        return B(True)

    def m_set_contains(ex, st, args, callee, ty):
        s = _obj(ex, st, args[0])
        return B(s.find(ex, st, sstr_of(ex, st, args[1]).chars) is not None)

    def m_set_is_empty(ex, st, args, callee, ty):
        return B(len(_obj(ex, st, args[0]).items) == 0)

    def m_set_len(ex, st, args, callee, ty):
        return BV(64, False, len(_obj(ex, st, args[0]).items))

    def m_set_clone(ex, st, args, callee, ty):
        return SetM([list(x) for x in _obj(ex, st, args[0]).items])

    def m_opt_set_clone(ex, st, args, callee, ty):
        o = _obj(ex, st, args[0])
        if o.variant == 0:
            return opt_none(ex)
        return opt_some(ex, SetM([list(x) for x in _obj(ex, st, o.fields[0]).items]))

    def m_set_iter(ex, st, args, callee, ty):
        return VecM([BoxRef(SStr(x)) for x in _obj(ex, st, args[0]).items])

    # ---- Box<dyn Trait>
    def m_box_new(ex, st, args, callee, ty):
        return args[0]

    def dyn_dispatch(trait, method):
        def f(ex, st, args, callee, ty):
            v = _obj(ex, st, args[0])
            if not isinstance(v, Adt):
                raise Unsupported("dyn dispatch on %r" % (v,))
            fn = FnItem("<%s as %s>::%s" % (v.ty, trait, method))
            recv = args[0] if isinstance(args[0], (Ref, BoxRef)) else BoxRef(args[0])
            return CallBack(fn, [recv] + list(args[1:]), Identity())
        return f

    class WriteAllCont:
        """default `write_all` = write until everything is accepted; MemfsFile::write accepts everything"""

        def __init__(self, n):
            self.n = n

        def resume(self, ex, st, v):
            if v.variant == 1:
                return v
            w = v.fields[0]
            if not (w.concrete and w.v == self.n):
                raise Unsupported("write() accepted %r of %d bytes (short writes are not modelled)" % (w, self.n))
            return Adt("Result", 0, "Ok", [UNIT])

    def m_dyn_write_all(ex, st, args, callee, ty):
        v = _obj(ex, st, args[0])
        buf = _obj(ex, st, args[1])
        n = len(buf.items) if hasattr(buf, "items") else len(buf.chars)
        recv = args[0] if isinstance(args[0], (Ref, BoxRef)) else BoxRef(args[0])
        return CallBack(FnItem("<%s as Write>::write" % v.ty), [recv, args[1]], WriteAllCont(n))

    def m_read_to_string(ex, st, args, callee, ty):
        """default read_to_string: append everything from the current position; content must be UTF-8
        (ASCII bytes in this model)"""
        f = _obj(ex, st, args[0])
        dst = args[1]
        if not (isinstance(f, Adt) and f.ty == "MemfsFile"):
            raise Unsupported("read_to_string on %r" % (f,))
        pos, data = f.fields[0], _obj(ex, st, f.fields[1])
        if not pos.concrete:
            raise Unsupported("read_to_string at a symbolic position")
        rest = data.items[pos.v:]
        cur = sstr_of(ex, st, dst)
        new = SStr(cur.chars + [BV(32, False, b.v) if b.concrete else BV(32, False, "((_ zero_extend 24) %s)" % b.smt()) for b in rest])
        if isinstance(dst, Ref):
            ex._write(st, dst.depth, dst.local, dst.proj, new)
        else:
            dst.obj = new
        return Adt("Result", 0, "Ok", [BV(64, False, len(rest))])

    def m_as_bytes(ex, st, args, callee, ty):
        """AsRef<[u8]> / as_bytes of ASCII text: one byte per char"""
        v = _obj(ex, st, args[0])
        if isinstance(v, VecM):
            return ref_of(ex, st, args[0])
        s = sstr_of(ex, st, args[0])
        out = []
        for c in s.chars:
            out.append(BV(8, False, c.v) if c.concrete else BV(8, False, "((_ extract 7 0) %s)" % c.smt()))
        return BoxRef(VecM(out))

    def m_vec_u8_write(ex, st, args, callee, ty):
        v, buf = _obj(ex, st, args[0]), _obj(ex, st, args[1])
        v.items.extend(buf.items)
        return Adt("Result", 0, "Ok", [BV(64, False, len(buf.items))])

    def m_vec_u8_clone(ex, st, args, callee, ty):
        return VecM(list(_obj(ex, st, args[0]).items))

    def m_vec_u8_clone_from(ex, st, args, callee, ty):
        _obj(ex, st, args[0]).items = list(_obj(ex, st, args[1]).items)
        return UNIT

    def m_vec_u8_clear(ex, st, args, callee, ty):
        _obj(ex, st, args[0]).items = []
        return UNIT

    def m_vec_u8_new(ex, st, args, callee, ty):
        return VecM()

    def m_vec_len(ex, st, args, callee, ty):
        return BV(64, False, len(_obj(ex, st, args[0]).items))

    def m_vec_is_empty(ex, st, args, callee, ty):
        return B(len(_obj(ex, st, args[0]).items) == 0)

    def m_opt_map_clone(ex, st, args, callee, ty):
        return args[0]

    def m_string_add(ex, st, args, callee, ty):
        return SStr(sstr_of(ex, st, args[0]).chars + sstr_of(ex, st, args[1]).chars)

    def m_slice_iter(ex, st, args, callee, ty):
        return VecM([x for x in _obj(ex, st, args[0]).items])

    def m_join(ex, st, args, callee, ty):
        parts = [sstr_of(ex, st, x).chars for x in _obj(ex, st, args[0]).items]
        sep = sstr_of(ex, st, args[1]).chars
        out = []
        for i, p in enumerate(parts):
            if i:
                out += sep
            out += p
        return SStr(out)

    class LinesM(VecM):
        pass

    def m_bufreader_new(ex, st, args, callee, ty):
        return Adt("BufReader", None, None, [args[0]])

    def m_lines(ex, st, args, callee, ty):
        """BufRead::lines over a MemfsFile handle: split the remaining bytes at '\n' (a '\r' before it
        is stripped); a final segment without terminator is a line too"""
        br = _obj(ex, st, args[0])
        f = _obj(ex, st, br.fields[0])
        if not (isinstance(f, Adt) and f.ty == "MemfsFile"):
            raise Unsupported("lines() over %r" % (f,))
        pos, data = f.fields[0], _obj(ex, st, f.fields[1]).items
        if not pos.concrete:
            raise Unsupported("lines() at a symbolic position")
        from .values import bv_bin
        lines, cur = [], []
        for b in data[pos.v:]:
            if ex.decide(st, bv_bin("Eq", b, BV(8, False, 10))):
                if cur and ex.decide(st, bv_bin("Eq", cur[-1], BV(8, False, 13))):
                    cur = cur[:-1]
                lines.append(cur)
                cur = []
            else:
                cur.append(b)
        if cur:
            lines.append(cur)
        return LinesM([Adt("Result", 0, "Ok", [SStr([BV(32, False, x.v) if x.concrete else BV(32, False, "((_ zero_extend 24) %s)" % x.smt()) for x in l])]) for l in lines])

    def m_list_next(ex, st, args, callee, ty):
        it = _obj(ex, st, args[0])
        return opt_some(ex, it.items.pop(0)) if it.items else opt_none(ex)

    def m_new_uninit(ex, st, args, callee, ty):
        from .models import UninitBox
        return UninitBox()

    def m_into_vec(ex, st, args, callee, ty):
        b = args[0]
        if b.content is None:
            raise Unsupported("box_assume_init_into_vec on an unwritten box")
        return VecM(b.content.fields)

    def m_opt_cloned(ex, st, args, callee, ty):
        from .models import WrapCont
        o = _obj(ex, st, args[0])
        if o.variant == 0:
            return opt_none(ex)
        r = o.fields[0]
        v = _obj(ex, st, r)
        if isinstance(v, Adt) and v.ty in ("MemfsFile", "MemfsEntry"):
            return CallBack(FnItem("<%s as Clone>::clone" % v.ty), [r if isinstance(r, (Ref, BoxRef)) else BoxRef(r)], WrapCont("Option", 1, "Some"))
        if isinstance(v, PathBufT):
            return opt_some(ex, PathBufT(v.chars))
        return opt_some(ex, v)

    def m_unwrap_or_default(ex, st, args, callee, ty):
        o = args[0]
        if o.variant == 1:
            return o.fields[0]
        m = re.match(r"^Option::<(.*)>::unwrap_or_default$", callee)
        tyname = m.group(1).split("::")[-1] if m else ""
        return CallBack(FnItem("<%s as Default>::default" % tyname), [], Identity())

    def m_opt_clone(ex, st, args, callee, ty):
        o = _obj(ex, st, args[0])
        if o.variant == 0:
            return opt_none(ex)
        v = o.fields[0]
        if isinstance(v, PathBufT):
            v = PathBufT(v.chars)
        return opt_some(ex, v)

    def m_pathbuf_clone_from(ex, st, args, callee, ty):
        dst, src = args[0], text_of(ex, st, args[1])
        new = PathBufT(src)
        if isinstance(dst, Ref):
            ex._write(st, dst.depth, dst.local, dst.proj, new)
        elif isinstance(dst, BoxRef):
            dst.obj = new
        else:
            raise Unsupported("clone_from through %r" % (dst,))
        return UNIT

    def m_default_scalar(ex, st, args, callee, ty):
        t = callee
        if "<bool as" in t:
            return B(False)
        if "<u32 as" in t:
            return BV(32, False, 0)
        if "<usize as" in t:
            return BV(64, False, 0)
        if "<String as" in t:
            return SStr([])
        if "<PathBuf as" in t:
            return PathBufT([])
        if "u64" in t:
            return BV(64, False, 0)
        if "Vec<u8>" in t:
            return VecM()
        if "Option<" in t:
            return opt_none(ex)
        raise Unsupported("Default::default for " + callee)

    return [
        (rx(r"^<Arc<.*> as Deref>::deref$"), m_deref),
        (rx(r"^<(?:std::sync::)?RwLock(Read|Write)Guard<'_, .*> as Deref(Mut)?>::deref(_mut)?$"), m_deref),
        (rx(r"^(?:std::sync::)?RwLock::<.*>::(read|write)$"), m_lock),
        (rx(r"^Result::<(?:std::sync::)?RwLock(Read|Write)Guard<.*>::unwrap$"), m_unwrap),
        (rx(r"^<Arc<.*> as Clone>::clone$"), m_arc_clone),
        (rx(r"^Arc::<.*>::new$"), m_arc_new),
        (rx(r"^(?:std::sync::)?RwLock::<.*>::new$"), m_rwlock_new),
        (rx(r"^HashMap::<PathBuf, .*>::new$"), m_map_new),
        (rx(r"^HashMap::<PathBuf, .*>::contains_key::<.*>$"), m_map_contains),
        (rx(r"^HashMap::<PathBuf, .*>::get(_mut)?::<.*>$"), m_map_get),
        (rx(r"^HashMap::<PathBuf, .*>::insert$"), m_map_insert),
        (rx(r"^HashMap::<PathBuf, .*>::remove::<.*>$"), m_map_remove),
        (rx(r"^HashMap::<PathBuf, .*>::len$"), m_map_len),
        (rx(r"^HashSet::<String>::new$"), m_set_new),
        (rx(r"^HashSet::<String>::insert$"), m_set_insert),
        (rx(r"^HashSet::<String>::remove::<.*>$"), m_set_remove),
        (rx(r"^HashSet::<String>::contains::<.*>$"), m_set_contains),
        (rx(r"^HashSet::<String>::is_empty$"), m_set_is_empty),
        (rx(r"^HashSet::<String>::len$"), m_set_len),
        (rx(r"^HashSet::<String>::iter$"), m_set_iter),
        (rx(r"^<HashSet<String> as Clone>::clone$"), m_set_clone),
        (rx(r"^<Option<HashSet<String>> as Clone>::clone$"), m_opt_set_clone),
        (rx(r"^Box::<.*>::new$"), m_box_new),
        (rx(r"^<Box<dyn (?:std::io::)?Write> as (?:std::io::)?Write>::write_all$"), m_dyn_write_all),
        (rx(r"^<Box<dyn (?:std::io::)?Write> as (?:std::io::)?Write>::flush$"), dyn_dispatch("Write", "flush")),
        (rx(r"^<Box<dyn (?:std::io::)?Write> as (?:std::io::)?Write>::write$"), dyn_dispatch("Write", "write")),
        (rx(r"^<Box<dyn (?:sys::fs::vfs::)?ReadSeek> as (?:std::io::)?Read>::read_to_string$"), m_read_to_string),
        (rx(r"^<Box<dyn (?:sys::fs::vfs::)?ReadSeek> as (?:std::io::)?Seek>::seek$"), dyn_dispatch("Seek", "seek")),
        (rx(r"^<[TU] as AsRef<\[u8\]>>::as_ref$"), m_as_bytes),
        (rx(r"^(?:core::)?str::<impl str>::as_bytes$"), m_as_bytes),
        (rx(r"^<Vec<u8> as (?:std::io::)?Write>::write$"), m_vec_u8_write),
        (rx(r"^Vec::<u8>::extend_from_slice$"), lambda ex, st, args, callee, ty: (_obj(ex, st, args[0]).items.extend(_obj(ex, st, args[1]).items), UNIT)[1]),
        (rx(r"^<Vec<u8> as Clone>::clone$"), m_vec_u8_clone),
        (rx(r"^<Vec<u8> as Clone>::clone_from$"), m_vec_u8_clone_from),
        (rx(r"^Vec::<u8>::clear$"), m_vec_u8_clear),
        (rx(r"^Vec::<u8>::new$"), m_vec_u8_new),
        (rx(r"^Vec::<u8>::len$"), m_vec_len),
        (rx(r"^Vec::<u8>::is_empty$"), m_vec_is_empty),
        (rx(r"^<(u64|u32|usize|bool|String|PathBuf|Vec<u8>|Option<.*>) as Default>::default$"), m_default_scalar),
        (rx(r"^<PathBuf as Clone>::clone_from$"), m_pathbuf_clone_from),
        (rx(r"^<&HashSet<String> as IntoIterator>::into_iter$"), m_set_iter),
        (rx(r"^<(?:std::collections::)?hash_set::Iter<'_, String> as IntoIterator>::into_iter$"), lambda ex, st, args, callee, ty: args[0]),
        (rx(r"^<(?:std::collections::)?hash_set::Iter<'_, String> as Iterator>::next$"),
         lambda ex, st, args, callee, ty: (opt_some(ex, _obj(ex, st, args[0]).items.pop(0)) if _obj(ex, st, args[0]).items else opt_none(ex))),
        (rx(r"^Vec::<.*>::new$"), m_vec_u8_new),
        (rx(r"^Vec::<.*>::push$"), lambda ex, st, args, callee, ty: (_obj(ex, st, args[0]).items.append(args[1]), UNIT)[1]),
        (rx(r"^Vec::<.*>::pop$"), lambda ex, st, args, callee, ty: (opt_some(ex, _obj(ex, st, args[0]).items.pop()) if _obj(ex, st, args[0]).items else opt_none(ex))),
        (rx(r"^Vec::<.*>::is_empty$"), m_vec_is_empty),
        (rx(r"^Vec::<.*>::len$"), m_vec_len),
        (rx(r"^Vec::<.*>::clear$"), m_vec_u8_clear),
        (rx(r"^<String as Add<&str>>::add$"), m_string_add),
        (rx(r"^(?:std::io::)?Error::new::<.*>$"), lambda ex, st, args, callee, ty: Adt("io::Error", None, None, [args[0]])),
        (rx(r"^<RvError as From<(?:std::io::)?Error>>::from$"), lambda ex, st, args, callee, ty: Adt("RvError", None, "Io", [args[0]])),
        (rx(r"^<Vec<.*> as Deref>::deref$"), lambda ex, st, args, callee, ty: ref_of(ex, st, args[0])),
        (rx(r"^(?:core::slice::)?<impl \[[TU]\]>::iter$"), m_slice_iter),
        (rx(r"^(?:\w+::)*<impl \[&str\]>::join::<&str>$"), m_join),
        (rx(r"^(?:\w+::)*<impl \[String\]>::join::<&str>$"), m_join),
        (rx(r"^BufReader::<.*>::new$"), m_bufreader_new),
        (rx(r"^<BufReader<.*> as BufRead>::lines$"), m_lines),
        (rx(r"^<(?:std::io::)?Lines<.*> as IntoIterator>::into_iter$"), lambda ex, st, args, callee, ty: args[0]),
        (rx(r"^<(?:std::io::)?Lines<.*> as Iterator>::next$"), m_list_next),
        (rx(r"^<(?:std::slice::)?Iter<'_, [TU]> as Iterator>::next$"), m_list_next),
        (rx(r"^Box::<\[.*; \d+\]>::new_uninit$"), m_new_uninit),
        (rx(r"^(?:std::boxed::)?box_assume_init_into_vec_unsafe::<.*, \d+>$"), m_into_vec),
        (rx(r"^<Option<(PathBuf|String|u32|u64|usize|bool)> as Clone>::clone$"), m_opt_clone),
        (rx(r"^Option::<&.*>::cloned$"), m_opt_cloned),
        (rx(r"^Option::<.*>::unwrap_or_default$"), m_unwrap_or_default),
        (rx(r"^<(String|PathBuf) as Clone>::clone$"), lambda ex, st, args, callee, ty: (PathBufT(text_of(ex, st, args[0])) if "PathBuf" in callee else SStr(sstr_of(ex, st, args[0]).chars))),
    ]


def release_guards(ex, st, v, depth=0):
    """release every lock guard contained in a dropped value"""
    if isinstance(v, Adt):
        if v.ty in ("RwLockWriteGuard", "RwLockReadGuard") and len(v.fields) > 1 and isinstance(v.fields[1], LockM):
            lk, tid = v.fields[1], st.meta.get("tid", 0)
            tok = v.fields[2] if len(v.fields) > 2 else None
            if tok is not None:
                if tok.released:
                    return
                tok.released = True
            if v.ty == "RwLockWriteGuard":
                if lk.writer == tid:
                    lk.writer = None
            else:
                if lk.readers.get(tid, 0) > 0:
                    lk.readers[tid] -= 1
            return
        if depth < 4 and v.ty in ("MemfsGuard", "Result", "Option", "(tuple)"):
            for f in v.fields:
                release_guards(ex, st, f, depth + 1)


def memfs_drop_hook(index):
    """MIR `drop(place)`: releases lock guards, and runs `<MemfsFile as Drop>::drop` (it syncs the handle's
    buffer into the filesystem) for MemfsFile values, also behind Box<dyn _> and Result/Option wrappers."""
    def hook(ex, st, place):
        try:
            v = ex.read_place(st, place)
        except Unsupported:
            return None
        release_guards(ex, st, v)

        def find(v, depth=0):
            if isinstance(v, Adt) and v.ty == "MemfsFile":
                return v
            if isinstance(v, Adt) and v.ty in ("Result", "Option") and v.fields and depth < 3:
                return find(v.fields[0], depth + 1)
            return None
        f = find(v)
        if f is None:
            return None
        hits = index.by_key.get(("Drop", "MemfsFile", "drop"))
        if not hits:
            return None
        return index.mir.function_at(hits[0]), [BoxRef(f)]
    return hook
