"""Index of rivia's own functions in the MIR dump, so that any call into rivia code can be executed
from its real MIR ("auto-inlining").  impl blocks are identified through their source span
(`<impl at src/…:LINE:COL: …>`), which is mapped to (trait, type) by scanning the sources."""
import glob
import os
import re

from .engine import Unsupported, strip_generics

RE_IMPL = re.compile(r"^\s*(?:unsafe\s+)?impl(?:\s*<[^{]*?>)?\s+(?:([\w:]+)(?:<[^{]*>)?\s+for\s+)?&?\s*(?:mut\s+)?([\w:]+)")
RE_HDR_IMPL = re.compile(r"^fn (?:[\w:]+::)?<impl at (src/[^:]+):(\d+):(\d+): (\d+):(\d+)>::(\w+)(?:::\{closure#\d+\})*\(")
RE_HDR_FREE = re.compile(r"^fn ([\w:]+)\(")


def last_ident(s):
    s = strip_generics(s).strip().lstrip("&").strip()
    s = re.sub(r"^(mut|dyn)\s+", "", s)
    parts = [p for p in s.split("::") if p]
    return parts[-1] if parts else s


class RiviaIndex:
    def __init__(self, mir, srcroot):
        self.mir = mir
        self.impls = {}  # (relfile, line) -> (trait, type)
        self.by_key = {}  # (trait, type, name) -> [header line]
        self.free = {}  # name -> [(module path, header line)]
        self._scan_sources(srcroot)
        self._scan_headers()

    def _scan_sources(self, srcroot):
        base = os.path.dirname(srcroot.rstrip("/"))
        for p in glob.glob(os.path.join(srcroot, "**", "*.rs"), recursive=True):
            rel = os.path.relpath(p, base)
            lines = open(p).read().split("\n")
            for i, l in enumerate(lines):
                m = RE_IMPL.match(l)
                if m and not l.lstrip().startswith("//"):
                    tr = m.group(1).split("::")[-1] if m.group(1) else None
                    self.impls[(rel, i + 1)] = (tr, m.group(2).split("::")[-1])
                if "#[derive(" in l:
                    # derived impls are reported at the position of the trait name inside the derive list
                    ty = None
                    for k in range(i + 1, min(i + 6, len(lines))):
                        mm = re.match(r"\s*(?:pub(?:\([^)]*\))?\s+)?(?:struct|enum)\s+(\w+)", lines[k])
                        if mm:
                            ty = mm.group(1)
                            break
                    if ty:
                        for dm in re.finditer(r"\b(\w+)\b", l[l.index("#[derive(") + 9:]):
                            col = l.index("#[derive(") + 9 + dm.start() + 1
                            self.impls[(rel, i + 1, col)] = (dm.group(1), ty)

    def _scan_headers(self):
        for i, l, p in self.mir.headers:
            if p or "::{closure#" in l:
                continue
            m = RE_HDR_IMPL.match(l)
            if m:
                rel, line, col, name = m.group(1), int(m.group(2)), int(m.group(3)), m.group(6)
                tt = self.impls.get((rel, line, col)) or self.impls.get((rel, line))
                if tt:
                    self.by_key.setdefault((tt[0], tt[1], name), []).append(i)
                continue
            m = RE_HDR_FREE.match(l)
            if m:
                path = m.group(1)
                parts = path.split("::")
                self.free.setdefault(parts[-1], []).append((path, i))
                # trait default method: `fn a::b::Trait::name(_1: &Self …`
                if len(parts) >= 2 and ("Self" in l or "&Self" in l):
                    self.by_key.setdefault((parts[-2], None, parts[-1]), []).append(i)

    def resolve(self, callee):
        """MIR function for a callee text, or None when it is not (uniquely) rivia code."""
        c = callee
        # drop a trailing turbofish
        depth = 0
        if c.endswith(">"):
            for k in range(len(c) - 1, -1, -1):
                if c[k] == ">" and not (k > 0 and c[k - 1] == "-"):
                    depth += 1
                elif c[k] == "<":
                    depth -= 1
                    if depth == 0:
                        if c[:k].endswith("::"):
                            c = c[:k - 2]
                        break
        m = re.match(r"^<(.+) as (.+)>::(\w+)$", c)
        if m:
            ty, tr, name = last_ident(m.group(1)), last_ident(m.group(2)), m.group(3)
            hits = self.by_key.get((tr, ty, name)) or self.by_key.get((tr, None, name))
            if hits and len(hits) == 1:
                return self.mir.function_at(hits[0])
            return None
        parts = [p for p in strip_generics(c).split("::") if p]
        if not parts:
            return None
        name = parts[-1]
        if len(parts) >= 2:
            hits = self.by_key.get((None, parts[-2], name))
            if hits and len(hits) == 1:
                return self.mir.function_at(hits[0])
        cands = self.free.get(name, [])
        if len(parts) >= 2:
            suffix = "::".join(parts)
            exact = [i for path, i in cands if path == suffix or path.endswith("::" + suffix) or suffix.endswith("::" + path)]
            if len(exact) == 1:
                return self.mir.function_at(exact[0])
        if len(cands) == 1 and len(parts) == 1:
            return self.mir.function_at(cands[0][1])
        return None
