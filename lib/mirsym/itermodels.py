"""Models of the std iterator plumbing used by rivia's directory traversal (Entries / EntryIter /
MemfsEntryIter): owned list iterators, boxed `dyn Iterator` dispatch, by-reference collect, slice
sort_by with a comparator closure, chain, any.  Items are kept in Python lists; whenever rivia code has
to run (a rivia `next`, a comparator / predicate closure) the model hands a CallBack to the engine, so
the real MIR decides."""
import re

from .engine import CallBack, FnItem, Identity, Panic, Unsupported
from .models import VecM, _obj, opt_none, opt_some
from .values import B, BV, UNIT, Adt, BoxRef, Ref


def rx(p):
    return re.compile(p)


class ListIterM(VecM):
    """vec::IntoIter<T> / Chain of two owned list iterators: the items still to be yielded"""
    pass


class SlotRef(BoxRef):
    """cell standing for a vector slot that has been borrowed (`last_mut`, `iter`): the vector keeps the cell"""
    pass


def own(x):
    return x.obj if isinstance(x, SlotRef) else x


def _recv(v):
    return v if isinstance(v, (Ref, BoxRef)) else BoxRef(v)


class PullCont:
    """Pulls `next()` on a rivia iterator (real MIR) until it yields None; `fin(ex, st, items)` builds the result."""

    def __init__(self, nextfn, recv, fin, limit=64):
        self.nextfn, self.recv, self.fin, self.limit = nextfn, recv, fin, limit
        self.out = []

    def start(self):
        return CallBack(self.nextfn, [self.recv], self)

    def resume(self, ex, st, v):
        if v.variant == 0:
            return FIN[self.fin](ex, st, self.out)
        self.out.append(v.fields[0])
        if len(self.out) > self.limit:
            raise Unsupported("iterator yields more than %d items" % self.limit)
        return CallBack(self.nextfn, [self.recv], self)


FIN = {
    "vec": lambda ex, st, out: VecM(out),
    "count": lambda ex, st, out: BV(64, False, len(out)),
}


class SortCont:
    """Stable insertion sort driven by the comparator closure (real MIR); same result as std's stable sort for every
    comparator that is a strict weak order."""

    def __init__(self, vec, cmp):
        self.vec, self.cmp = vec, cmp
        self.items = list(vec.items)
        self.sorted = []
        self.cur = None
        self.pos = 0

    def start(self, ex, st):
        return self._next_item(ex, st)

    def _next_item(self, ex, st):
        while True:
            if not self.items:
                self.vec.items[:] = self.sorted
                return UNIT
            self.cur = self.items.pop(0)
            self.pos = len(self.sorted)
            if self.pos == 0:
                self.sorted.append(self.cur)
                continue
            return self._compare()

    def _compare(self):
        # is sorted[pos-1] > cur ?  (then cur moves in front of it)
        return CallBack(self.cmp, [BoxRef(self.sorted[self.pos - 1]), BoxRef(self.cur)], self)

    def resume(self, ex, st, v):
        # v: Ordering (Less = -1, Equal = 0, Greater = 1) as an Adt with a concrete variant
        greater = ordering_is(ex, st, v, "Greater")
        if greater:
            self.pos -= 1
            if self.pos > 0:
                return self._compare()
        self.sorted.insert(self.pos, self.cur)
        return self._next_item(ex, st)


def ordering_is(ex, st, v, name):
    if isinstance(v, Adt) and v.ty == "Ordering":
        return (v.vname or ["Less", "Equal", "Greater"][v.variant]) == name
    if isinstance(v, Adt) and v.ty in ("Less", "Equal", "Greater"):
        return v.ty == name
    if isinstance(v, BV):
        want = {"Less": -1, "Equal": 0, "Greater": 1}[name]
        if v.concrete:
            return v.sint() == want
        from .values import bv_bin
        return ex.decide(st, bv_bin("Eq", v, BV(v.w, v.signed, want & ((1 << v.w) - 1))))
    raise Unsupported("Ordering value %r" % (v,))


class AnyCont:
    def __init__(self, items, pred, want=True):
        self.items, self.pred, self.want = list(items), pred, want

    def start(self, ex, st):
        if not self.items:
            return B(not self.want)
        return CallBack(self.pred, [self.items.pop(0)], self)

    def resume(self, ex, st, v):
        if ex.decide(st, v) == self.want:
            return B(self.want)
        return self.start(ex, st)


def make_iter_models(index):
    """index: RiviaIndex (to find `<T as Iterator>::next` of rivia iterator types)"""

    def rivia_next(v):
        return FnItem("<%s as Iterator>::next" % v.ty)

    def m_vec_into_iter(ex, st, args, callee, ty):
        v = _obj(ex, st, args[0])
        return ListIterM([own(x) for x in v.items])

    def m_list_next(ex, st, args, callee, ty):
        it = _obj(ex, st, args[0])
        return opt_some(ex, own(it.items.pop(0))) if it.items else opt_none(ex)

    def m_vec_pop(ex, st, args, callee, ty):
        v = _obj(ex, st, args[0])
        return opt_some(ex, own(v.items.pop())) if v.items else opt_none(ex)

    def m_dyn_next(ex, st, args, callee, ty):
        it = _obj(ex, st, args[0])
        if isinstance(it, VecM):
            return opt_some(ex, it.items.pop(0)) if it.items else opt_none(ex)
        if isinstance(it, Adt):
            return CallBack(rivia_next(it), [_recv(args[0])], Identity())
        raise Unsupported("dyn Iterator::next on %r" % (it,))

    def m_collect_vec_byref(ex, st, args, callee, ty):
        it = _obj(ex, st, args[0])
        if isinstance(it, VecM):
            out = list(it.items)
            del it.items[:]
            return VecM(out)
        if isinstance(it, Adt):
            return PullCont(rivia_next(it), _recv(args[0]), "vec").start()
        raise Unsupported("collect on %r" % (it,))

    def m_chain(ex, st, args, callee, ty):
        a, b = _obj(ex, st, args[0]), _obj(ex, st, args[1])
        if isinstance(a, VecM) and isinstance(b, VecM):
            return ListIterM(list(a.items) + list(b.items))
        raise Unsupported("chain of %r and %r" % (a, b))

    def m_sort_by(ex, st, args, callee, ty):
        v = _obj(ex, st, args[0])
        if not isinstance(v, VecM):
            raise Unsupported("sort_by on %r" % (v,))
        return SortCont(v, args[1]).start(ex, st)

    def m_any(ex, st, args, callee, ty):
        it = _obj(ex, st, args[0])
        items = list(it.items)
        del it.items[:]
        return AnyCont(items, args[1]).start(ex, st)

    def m_last_mut(ex, st, args, callee, ty):
        v = _obj(ex, st, args[0])
        if not v.items:
            return opt_none(ex)
        x = v.items[-1]
        if not isinstance(x, SlotRef):
            x = SlotRef(x)
            v.items[-1] = x  # the element now lives in a cell so that `&mut` to it aliases the vector's slot
        return opt_some(ex, x)

    def m_last(ex, st, args, callee, ty):
        v = _obj(ex, st, args[0])
        if not v.items:
            return opt_none(ex)
        x = v.items[-1]
        if not isinstance(x, SlotRef):
            x = SlotRef(x)
            v.items[-1] = x
        return opt_some(ex, x)

    def m_vec_iter(ex, st, args, callee, ty):
        v = _obj(ex, st, args[0])
        out = []
        for i, x in enumerate(v.items):
            if not isinstance(x, SlotRef):
                x = SlotRef(x)
                v.items[i] = x
            out.append(x)
        return ListIterM(out)

    def ordering(name):
        return Adt("Ordering", ["Less", "Equal", "Greater"].index(name), name, [])

    def m_cmp_opt_text(ex, st, args, callee, ty):
        """<Option<&OsStr> as Ord>::cmp: None < Some; texts compare lexicographically by code point (= UTF-8 byte order)"""
        from .models import sstr_of
        from .values import bv_bin
        a, b = _obj(ex, st, args[0]), _obj(ex, st, args[1])
        if a.variant == 0 or b.variant == 0:
            return ordering("Equal" if a.variant == b.variant else ("Less" if a.variant == 0 else "Greater"))
        x, y = sstr_of(ex, st, a.fields[0]).chars, sstr_of(ex, st, b.fields[0]).chars
        for c, d in zip(x, y):
            if ex.decide(st, bv_bin("Lt", c, d)):
                return ordering("Less")
            if ex.decide(st, bv_bin("Lt", d, c)):
                return ordering("Greater")
        return ordering("Equal" if len(x) == len(y) else ("Less" if len(x) < len(y) else "Greater"))

    def m_swap(ex, st, args, callee, ty):
        a, b = args
        va, vb = _obj(ex, st, a), _obj(ex, st, b)
        if hasattr(va, "chars") and hasattr(vb, "chars"):
            va.chars, vb.chars = vb.chars, va.chars  # text buffers are mutable model objects: swap their contents
            return UNIT
        for dst, new in ((a, vb), (b, va)):
            if isinstance(dst, Ref):
                ex._write(st, dst.depth, dst.local, dst.proj, new)
            elif isinstance(dst, BoxRef):
                dst.obj = new
            else:
                raise Unsupported("mem::swap through %r" % (dst,))
        return UNIT

    def m_skip_take(ex, st, args, callee):
        it, n = _obj(ex, st, args[0]), args[1]
        if not (isinstance(n, BV) and n.concrete):
            raise Unsupported("skip/take by a symbolic count")
        return ListIterM(list(it.items[n.v:]) if callee.endswith("::skip") else list(it.items[:n.v]))

    def m_opt_or(ex, st, args, callee, ty):
        return args[0] if args[0].variant == 1 else args[1]

    return [
        (rx(r"^Option::<.*>::or$"), m_opt_or),
        (rx(r"^<(?:errors::)?RvError as From<(?:errors::)?RvError>>::from$"), lambda ex, st, args, callee, ty: args[0]),
        (rx(r"^<T as From<T>>::from$"), lambda ex, st, args, callee, ty: args[0]),
        (rx(r"^<(?:std::slice::)?Iter<'_, .*> as Iterator>::rev$"), lambda ex, st, args, callee, ty: ListIterM(list(reversed(_obj(ex, st, args[0]).items)))),
        (rx(r"^<(?:std::iter::)?Rev<(?:std::slice::)?Iter<'_, .*>> as Iterator>::(skip|take)$"), lambda ex, st, args, callee, ty: m_skip_take(ex, st, args, callee)),
        (rx(r"^<(?:std::slice::)?Iter<'_, .*> as Iterator>::(skip|take)$"), lambda ex, st, args, callee, ty: m_skip_take(ex, st, args, callee)),
        (rx(r"^<(?:std::iter::)?(?:Skip|Take|Rev)<.*(?:std::slice::)?Iter<'_, .*>>+ as Iterator>::any::<.*>$"), m_any),
        (rx(r"^<(?:std::iter::)?(?:Skip|Take|Rev)<.*(?:std::slice::)?Iter<'_, .*>>+ as Iterator>::next$"), m_list_next),
        (rx(r"^<Chars<'_> as Iterator>::rev$"), lambda ex, st, args, callee, ty: VecM(list(reversed(_obj(ex, st, args[0]).items)))),
        (rx(r"^<Rev<Chars<'_>> as Iterator>::collect::<Vec<char>>$"), lambda ex, st, args, callee, ty: VecM(list(_obj(ex, st, args[0]).items))),
        (rx(r"^(?:std|core)::mem::swap::<.*>$"), m_swap),
        (rx(r"^<Option<&(?:std::ffi::)?OsStr> as (?:Partial)?Ord>::cmp$"), m_cmp_opt_text),
        (rx(r"^<Vec<.*> as DerefMut>::deref_mut$"), lambda ex, st, args, callee, ty: _recv(args[0])),
        (rx(r"^<Vec<.*> as IntoIterator>::into_iter$"), m_vec_into_iter),
        (rx(r"^<(?:std::vec::)?IntoIter<.*> as Iterator>::next$"), m_list_next),
        (rx(r"^Vec::<(?!u8>).*>::pop$"), m_vec_pop),
        (rx(r"^(?:\w+::)*<impl \[(?!u8\]).*\]>::iter$"), m_vec_iter),
        (rx(r"^<Box<dyn Iterator<Item = .*>> as Iterator>::next$"), m_dyn_next),
        (rx(r"^<&mut .* as Iterator>::collect::<Vec<.*>>$"), m_collect_vec_byref),
        (rx(r"^<(?:std::vec::)?IntoIter<.*> as Iterator>::chain::<Vec<.*>>$"), m_chain),
        (rx(r"^(?:\w+::)*<impl \[.*\]>::sort_by::<.*>$"), m_sort_by),
        (rx(r"^<(?:std::slice::)?Iter<'_, .*> as Iterator>::any::<.*>$"), m_any),
        (rx(r"^(?:\w+::)*<impl \[.*\]>::last_mut$"), m_last_mut),
        (rx(r"^(?:\w+::)*<impl \[(?!u8\]).*\]>::last$"), m_last),
        (rx(r"^<Vec<.*> as Deref>::deref$"), lambda ex, st, args, callee, ty: _recv(args[0])),
    ]
