"""SMT plumbing: one long-lived `z3 -in` process, every query logged so that cvc5 can re-run the
whole script once and the verdict vectors can be diffed."""
import os
import subprocess
import time


class SolverError(Exception):
    pass


class Solver:
    def __init__(self, logpath, z3="/usr/bin/z3"):
        self.p = subprocess.Popen([z3, "-in", "-smt2"], stdin=subprocess.PIPE, stdout=subprocess.PIPE,
                                  stderr=subprocess.STDOUT, text=True, bufsize=1)
        self.log = open(logpath, "w")
        self.logpath = logpath
        self.verdicts = []
        self.nq = 0
        self.time = 0.0
        self.decls = set()
        self.cache = {}
        self._send("(set-option :print-success false)")
        self._send("(set-logic ALL)")

    def _send(self, s, log=True):
        if log:
            self.log.write(s + "\n")
        self.p.stdin.write(s + "\n")

    def _readline(self):
        self.p.stdin.flush()
        l = self.p.stdout.readline()
        if l == "":
            raise SolverError("solver died")
        return l.strip()

    def declare(self, name, sort):
        if name in self.decls:
            return
        self.decls.add(name)
        self._send("(declare-const %s %s)" % (name, sort))

    def declare_fun(self, name, args, ret):
        if name in self.decls:
            return
        self.decls.add(name)
        self._send("(declare-fun %s (%s) %s)" % (name, " ".join(args), ret))

    def declare_sort(self, name):
        if name in self.decls:
            return
        self.decls.add(name)
        self._send("(declare-sort %s 0)" % name)

    def raw(self, s):
        self._send(s)

    def check(self, assertions, want_model=None):
        """Returns 'sat' | 'unsat' (anything else raises).  With want_model (list of terms) returns
        (verdict, {term: value}) for sat."""
        key = None
        if want_model is None:
            key = tuple(assertions)
            if key in self.cache:
                return self.cache[key]
        t0 = time.time()
        self._send("(push 1)")
        for a in assertions:
            self._send("(assert %s)" % a)
        self._send("(check-sat)")
        r = self._readline()
        while r.startswith("(error") is False and r not in ("sat", "unsat", "unknown"):
            # warnings etc.
            if r.startswith("("):
                break
            r = self._readline()
        self.nq += 1
        if r.startswith("(error") or r not in ("sat", "unsat"):
            self._send("(pop 1)")
            self.time += time.time() - t0
            raise SolverError("solver answered %r (inconclusive)" % r)
        self.verdicts.append(r)
        model = None
        if r == "sat" and want_model:
            model = {}
            for term in want_model:
                # not logged: get-value output is not part of the verdict vector
                self._send("(get-value (%s))" % term, log=False)
                v = self._readline()
                # ((term value))
                depth_txt = v
                while depth_txt.count("(") > depth_txt.count(")"):
                    depth_txt += " " + self._readline()
                inner = depth_txt.strip()[2:-2].strip()
                val = inner[len(term):].strip() if inner.startswith(term) else inner.split(None, 1)[-1]
                model[term] = val
        self._send("(pop 1)")
        self.time += time.time() - t0
        if key is not None:
            self.cache[key] = r
            return r
        return r, model

    def close(self):
        try:
            self._send("(exit)")
            self.p.stdin.flush()
            self.p.wait(timeout=5)
        except Exception:
            self.p.kill()
        self.log.close()

    def cross_check(self, cvc5="/usr/bin/cvc5", cap_s=600, chunk_queries=4000, workers=4):
        """Re-runs the logged script through cvc5; returns (agree: bool, detail, seconds).
        Long logs are split at top-level (depth 0) boundaries into chunks of ~chunk_queries queries; every chunk carries all
        top-level declarations made before it, so each query is re-decided with exactly the assertions it had; the chunks run
        in parallel cvc5 processes and the verdict vectors are concatenated in order."""
        import concurrent.futures as cfut
        import tempfile
        self.log.flush()
        t0 = time.time()
        header, decls, chunks, cur, depth, nq = [], [], [], [], 0, 0
        with open(self.logpath) as f:
            for line in f:
                l = line.strip()
                if not l:
                    continue
                if depth == 0 and l.startswith(("(set-option", "(set-logic")):
                    header.append(l)
                    continue
                if depth == 0 and l.startswith(("(declare-", "(define-")):
                    decls.append(l)
                    cur.append(None)  # marker: declarations are replayed from `decls`
                    continue
                if l.startswith("(push"):
                    depth += 1
                elif l.startswith("(pop"):
                    depth -= 1
                elif l.startswith("(check-sat"):
                    nq += 1
                cur.append(l)
                if depth == 0 and nq >= chunk_queries:
                    chunks.append((len(decls), cur))
                    cur, nq = [], 0
        if cur:
            chunks.append((len(decls), cur))
        if depth != 0:
            return None, "log is not balanced (depth %d at the end)" % depth, time.time() - t0
        tmpdir = tempfile.mkdtemp(prefix="cvc5chunks-", dir=os.path.dirname(self.logpath))
        paths = []
        ndecl_before = 0
        for k, (ndecl_end, lines) in enumerate(chunks):
            pth = os.path.join(tmpdir, "chunk%04d.smt2" % k)
            with open(pth, "w") as f:
                f.write("\n".join(header) + "\n")
                f.write("\n".join(decls[:ndecl_before]) + "\n")
                di = ndecl_before
                for l in lines:
                    if l is None:
                        f.write(decls[di] + "\n")
                        di += 1
                    else:
                        f.write(l + "\n")
            ndecl_before = ndecl_end
            paths.append(pth)
        deadline = t0 + cap_s

        def run1(pth):
            left = deadline - time.time()
            if left <= 0:
                return None, "cvc5 timed out after %ds" % cap_s
            try:
                r = subprocess.run([cvc5, "--incremental", "--lang", "smt2", pth], capture_output=True, text=True, timeout=left)
            except subprocess.TimeoutExpired:
                return None, "cvc5 timed out after %ds" % cap_s
            lines = [l.strip() for l in r.stdout.split("\n") if l.strip()]
            if any(l.startswith("(error") for l in lines) or r.returncode != 0:
                return None, "cvc5 error: %s %s" % (lines[:3], r.stderr[:300])
            return [l for l in lines if l in ("sat", "unsat", "unknown")], None
        try:
            with cfut.ThreadPoolExecutor(max_workers=workers) as pool:
                res = list(pool.map(run1, paths))
        finally:
            import shutil
            shutil.rmtree(tmpdir, ignore_errors=True)
        got = []
        for r, err in res:
            if r is None:
                return None, err, time.time() - t0
            got += r
        if got == self.verdicts:
            return True, "%d verdicts agree (%d chunk(s))" % (len(got), len(paths)), time.time() - t0
        for i, (a, b) in enumerate(zip(self.verdicts, got)):
            if a != b:
                return False, "query %d: z3=%s cvc5=%s" % (i, a, b), time.time() - t0
        return False, "verdict count differs: z3=%d cvc5=%d" % (len(self.verdicts), len(got)), time.time() - t0


def parse_smt_int(v):
    v = v.strip()
    if v.startswith("(- "):
        return -int(v[3:-1].strip())
    if v.startswith("#x"):
        return int(v[2:], 16)
    if v.startswith("#b"):
        return int(v[2:], 2)
    if v in ("true", "false"):
        return v == "true"
    try:
        return int(v)
    except ValueError:
        return v
