"""Value domain of the symbolic executor: concrete-folding wrappers around SMT-LIB terms."""


class BV:
    """Machine integer / char (u32) of width w.  v is a Python int in [0, 2^w) or an SMT term (str)."""
    __slots__ = ("w", "signed", "v")

    def __init__(self, w, signed, v):
        self.w, self.signed = w, signed
        self.v = (v & ((1 << w) - 1)) if isinstance(v, int) else v

    @property
    def concrete(self):
        return isinstance(self.v, int)

    def smt(self):
        if isinstance(self.v, int):
            return "(_ bv%d %d)" % (self.v, self.w)
        return self.v

    def sint(self):
        assert self.concrete
        if self.signed and self.v >= (1 << (self.w - 1)):
            return self.v - (1 << self.w)
        return self.v

    def __repr__(self):
        return "BV%s%d(%s)" % ("i" if self.signed else "u", self.w, self.sint() if self.concrete else self.v)


class B:
    __slots__ = ("v",)

    def __init__(self, v):
        self.v = v

    @property
    def concrete(self):
        return isinstance(self.v, bool)

    def smt(self):
        if isinstance(self.v, bool):
            return "true" if self.v else "false"
        return self.v

    def __repr__(self):
        return "B(%s)" % (self.v,)


class I:
    """Mathematical integer (used for abstract tags: component kinds, name atoms, indices)."""
    __slots__ = ("v",)

    def __init__(self, v):
        self.v = v

    @property
    def concrete(self):
        return isinstance(self.v, int)

    def smt(self):
        if isinstance(self.v, int):
            return str(self.v) if self.v >= 0 else "(- %d)" % -self.v
        return self.v

    def __repr__(self):
        return "I(%s)" % (self.v,)


class Unit:
    def __repr__(self):
        return "()"


UNIT = Unit()


class Adt:
    """enum / struct / tuple value.  variant: int index or None (struct/tuple)."""
    __slots__ = ("ty", "variant", "vname", "fields")

    def __init__(self, ty, variant, vname, fields):
        self.ty, self.variant, self.vname, self.fields = ty, variant, vname, list(fields)

    def __repr__(self):
        return "%s::%s%s" % (self.ty, self.vname if self.vname is not None else self.variant, self.fields or "")


class Ref:
    __slots__ = ("depth", "local", "proj", "mut")

    def __init__(self, depth, local, proj=(), mut=False):
        self.depth, self.local, self.proj, self.mut = depth, local, tuple(proj), mut

    def __repr__(self):
        return "&%s[%d]%s%s" % ("mut " if self.mut else "", self.depth, self.local, list(self.proj) or "")


class BoxRef:
    """Reference to a heap object that lives outside any frame (promoted constants, model temporaries)."""
    __slots__ = ("obj",)

    def __init__(self, obj):
        self.obj = obj

    def __repr__(self):
        return "&box(%r)" % (self.obj,)


class Str:
    """A &str / String whose content is concrete (constants) or opaque (id only)."""
    __slots__ = ("s", "sym")

    def __init__(self, s=None, sym=None):
        self.s, self.sym = s, sym

    def __repr__(self):
        return "Str(%r)" % (self.s if self.s is not None else self.sym,)


class Opaque:
    """A value of an uninterpreted sort (dispatch checks): term of sort `sort`."""
    __slots__ = ("sort", "term")

    def __init__(self, sort, term):
        self.sort, self.term = sort, term

    def smt(self):
        return self.term

    def __repr__(self):
        return "Opaque(%s:%s)" % (self.term, self.sort)


# ------------------------------------------------------------------------------------------------
# boolean / integer term builders with concrete folding
# ------------------------------------------------------------------------------------------------
def b_not(a):
    if a.concrete:
        return B(not a.v)
    return B("(not %s)" % a.v)


def b_and(*xs):
    xs = [x for x in xs if not (x.concrete and x.v)]
    if any(x.concrete and not x.v for x in xs):
        return B(False)
    if not xs:
        return B(True)
    if len(xs) == 1:
        return xs[0]
    return B("(and %s)" % " ".join(x.smt() for x in xs))


def b_or(*xs):
    xs = [x for x in xs if not (x.concrete and not x.v)]
    if any(x.concrete and x.v for x in xs):
        return B(True)
    if not xs:
        return B(False)
    if len(xs) == 1:
        return xs[0]
    return B("(or %s)" % " ".join(x.smt() for x in xs))


def b_implies(a, b):
    return b_or(b_not(a), b)


def b_eq(a, b):
    if a.concrete and b.concrete:
        return B(a.v == b.v)
    return B("(= %s %s)" % (a.smt(), b.smt()))


def b_ite(c, a, b):
    if c.concrete:
        return a if c.v else b
    return B("(ite %s %s %s)" % (c.smt(), a.smt(), b.smt()))


def i_eq(a, b):
    if a.concrete and b.concrete:
        return B(a.v == b.v)
    if (not a.concrete) and (not b.concrete) and a.v == b.v:
        return B(True)
    return B("(= %s %s)" % (a.smt(), b.smt()))


def i_ite(c, a, b):
    if c.concrete:
        return a if c.v else b
    return I("(ite %s %s %s)" % (c.smt(), a.smt(), b.smt()))


def _s(x, w):
    return x - (1 << w) if x >= (1 << (w - 1)) else x


def bv_bin(op, a, b):
    """Returns BV or B for comparison ops; *WithOverflow returns (BV, B)."""
    w, sg = a.w, a.signed
    assert a.w == b.w or op in ("Shl", "Shr"), (op, a, b)
    cc = a.concrete and b.concrete
    m = (1 << w) - 1
    if cc:
        x, y = a.v, b.v
        sx, sy = (_s(x, w), _s(y, b.w)) if sg else (x, y)
    cmp_ops = {"Eq": "=", "Ne": None, "Lt": "bvslt" if sg else "bvult", "Le": "bvsle" if sg else "bvule",
               "Gt": "bvsgt" if sg else "bvugt", "Ge": "bvsge" if sg else "bvuge"}
    if op in cmp_ops:
        if cc:
            return B({"Eq": sx == sy, "Ne": sx != sy, "Lt": sx < sy, "Le": sx <= sy, "Gt": sx > sy, "Ge": sx >= sy}[op])
        if op == "Ne":
            return B("(not (= %s %s))" % (a.smt(), b.smt()))
        return B("(%s %s %s)" % (cmp_ops[op], a.smt(), b.smt()))
    arith = {"Add": "bvadd", "Sub": "bvsub", "Mul": "bvmul", "BitAnd": "bvand", "BitOr": "bvor", "BitXor": "bvxor",
             "AddUnchecked": "bvadd", "SubUnchecked": "bvsub", "MulUnchecked": "bvmul"}
    if op in arith:
        if cc:
            r = {"bvadd": x + y, "bvsub": x - y, "bvmul": x * y, "bvand": x & y, "bvor": x | y, "bvxor": x ^ y}[arith[op]]
            return BV(w, sg, r & m)
        return BV(w, sg, "(%s %s %s)" % (arith[op], a.smt(), b.smt()))
    if op in ("AddWithOverflow", "SubWithOverflow", "MulWithOverflow"):
        base = op[:3]
        if cc:
            r = {"Add": sx + sy, "Sub": sx - sy, "Mul": sx * sy}[base]
            lo, hi = (-(1 << (w - 1)), (1 << (w - 1)) - 1) if sg else (0, m)
            return BV(w, sg, r & m), B(r < lo or r > hi)
        f = {"Add": "bvadd", "Sub": "bvsub", "Mul": "bvmul"}[base]
        res = BV(w, sg, "(%s %s %s)" % (f, a.smt(), b.smt()))
        ext = "sign_extend" if sg else "zero_extend"
        n = w if base == "Mul" else 1
        wa = "((_ %s %d) %s)" % (ext, n, a.smt())
        wb = "((_ %s %d) %s)" % (ext, n, b.smt())
        wide = "(%s %s %s)" % (f, wa, wb)
        back = "((_ %s %d) %s)" % (ext, n, res.smt())
        return res, B("(not (= %s %s))" % (wide, back))
    if op in ("Div", "Rem"):
        if cc:
            if y == 0:
                raise ZeroDivisionError
            if sg:
                q = abs(sx) // abs(sy) * (1 if (sx < 0) == (sy < 0) else -1)
                r = sx - q * sy
            else:
                q, r = x // y, x % y
            return BV(w, sg, (q if op == "Div" else r) & m)
        f = {("Div", True): "bvsdiv", ("Div", False): "bvudiv", ("Rem", True): "bvsrem", ("Rem", False): "bvurem"}[(op, sg)]
        return BV(w, sg, "(%s %s %s)" % (f, a.smt(), b.smt()))
    if op in ("Shl", "Shr", "ShlUnchecked", "ShrUnchecked"):
        if cc:
            sh = b.v % w
            if op.startswith("Shl"):
                return BV(w, sg, (x << sh) & m)
            return BV(w, sg, ((sx >> sh) & m) if sg else (x >> sh))
        bb = b.smt()
        if b.w < w:
            bb = "((_ zero_extend %d) %s)" % (w - b.w, bb)
        elif b.w > w:
            bb = "((_ extract %d 0) %s)" % (w - 1, bb)
        f = "bvshl" if op.startswith("Shl") else ("bvashr" if sg else "bvlshr")
        return BV(w, sg, "(%s %s (bvurem %s (_ bv%d %d)))" % (f, a.smt(), bb, w, w))
    raise NotImplementedError("binop " + op)


def bv_not(a):
    if a.concrete:
        return BV(a.w, a.signed, (~a.v) & ((1 << a.w) - 1))
    return BV(a.w, a.signed, "(bvnot %s)" % a.smt())


def bv_cast(a, w, signed):
    if a.concrete:
        v = a.sint() if a.signed else a.v
        return BV(w, signed, v & ((1 << w) - 1))
    if w == a.w:
        return BV(w, signed, a.v)
    if w < a.w:
        return BV(w, signed, "((_ extract %d 0) %s)" % (w - 1, a.smt()))
    return BV(w, signed, "((_ %s %d) %s)" % ("sign_extend" if a.signed else "zero_extend", w - a.w, a.smt()))


INT_TYPES = {"u8": (8, False), "u16": (16, False), "u32": (32, False), "u64": (64, False), "u128": (128, False),
             "usize": (64, False), "i8": (8, True), "i16": (16, True), "i32": (32, True), "i64": (64, True),
             "i128": (128, True), "isize": (64, True), "char": (32, False)}
