"""Bounded sequence models of the std types rivia's lexical path code is written against.

These are *environment stubs* in the sense of the brief: each models the documented contract of a
std type (not rivia code) and each is validated against the real std implementation every run by
`validate_models` (differential native test).  rivia's own logic is never modelled: it is executed
from its MIR.

Component kinds follow rustc's discriminants of std::path::Component:
  0 Prefix (never on unix), 1 RootDir, 2 CurDir, 3 ParentDir, 4 Normal(atom)
"""
import re

from .engine import Panic, Unsupported
from .values import B, BV, I, UNIT, Adt, BoxRef, Ref, Str, b_and, b_implies, b_not, b_or, i_eq

ROOT, CUR, PARENT, NORMAL = 1, 2, 3, 4


class Comp:
    """std::path::Component: kind (I) and, for Normal, a name atom (I)."""
    __slots__ = ("kind", "atom")

    def __init__(self, kind, atom=None):
        self.kind = kind if isinstance(kind, I) else I(kind)
        self.atom = atom if atom is not None else I(0)

    def discriminant(self):
        return self.kind

    def downcast(self, name):
        return self

    def get_field(self, n):
        return Str(sym=("atom", self.atom))

    def __repr__(self):
        return "Comp(%s,%s)" % (self.kind.v, self.atom.v)


def comp_eq(a, b):
    return b_and(i_eq(a.kind, b.kind), b_implies(i_eq(a.kind, I(NORMAL)), i_eq(a.atom, b.atom)))


class PathM:
    """A borrowed `Path` = its component sequence (what `Path::components` yields)."""

    def __init__(self, comps):
        self.comps = list(comps)

    def __repr__(self):
        return "PathM(%s)" % self.comps


class PathBufM(PathM):
    pass


class ComponentsM:
    """Double ended iterator over a component sequence."""

    def __init__(self, comps):
        self.comps = list(comps)

    def __repr__(self):
        return "ComponentsM(%s)" % self.comps


class VecM:
    def __init__(self, items=()):
        self.items = list(items)

    def __repr__(self):
        return "VecM(%s)" % self.items


class SliceIterM(VecM):
    pass


def opt_some(ex, v):
    return Adt("Option", 1, "Some", [v])


def opt_none(ex):
    return Adt("Option", 0, "None", [])


def _obj(ex, st, v):
    """Follow references down to a model object."""
    while isinstance(v, (Ref, BoxRef)):
        v = ex.deref(st, v)
    return v


# --------------------------------------------------------------------------------------------
# PathBuf::push semantics on component sequences (unix):
#   pushing an absolute path replaces the buffer; otherwise components are appended, except that a
#   pushed `.` that is not the first component of the resulting path disappears when the buffer is
#   later re-parsed (Components normalises inner CurDir away).
# --------------------------------------------------------------------------------------------
def pathbuf_push_comp(ex, st, buf, c):
    is_root = i_eq(c.kind, I(ROOT))
    if ex.decide(st, is_root):
        buf.comps = [c]
        return
    is_cur = i_eq(c.kind, I(CUR))
    if buf.comps and ex.decide(st, is_cur):
        return  # "a" + "." = "a/." which re-parses as [a]
    buf.comps.append(c)


def m_pathbuf_new(ex, st, args, callee, ty):
    return PathBufM([])


def m_as_ref(ex, st, args, callee, ty):
    v = _obj(ex, st, args[0])
    if isinstance(v, (PathM, Str)):
        return BoxRef(v) if not isinstance(args[0], (Ref, BoxRef)) else _last_ref(ex, st, args[0])
    raise Unsupported("AsRef::as_ref on %r" % (v,))


def _last_ref(ex, st, r):
    """Resolve reference chains `&&Path` to the innermost reference."""
    while True:
        t = ex.deref(st, r)
        if isinstance(t, (Ref, BoxRef)):
            r = t
        else:
            return r


def m_components(ex, st, args, callee, ty):
    p = _obj(ex, st, args[0])
    if not isinstance(p, PathM):
        raise Unsupported("Path::components on %r" % (p,))
    return ComponentsM(p.comps)


def m_identity(ex, st, args, callee, ty):
    return args[0]


def m_components_next(ex, st, args, callee, ty):
    it = _obj(ex, st, args[0])
    if not isinstance(it, ComponentsM):
        raise Unsupported("Components::next on %r" % (it,))
    if it.comps:
        return opt_some(ex, it.comps.pop(0))
    return opt_none(ex)


def m_components_last(ex, st, args, callee, ty):
    it = _obj(ex, st, args[0])
    if it.comps:
        return opt_some(ex, it.comps[-1])
    return opt_none(ex)


def m_comp_eq(ex, st, args, callee, ty):
    a, b = _obj(ex, st, args[0]), _obj(ex, st, args[1])
    return comp_eq(a, b)


def m_comp_ne(ex, st, args, callee, ty):
    return b_not(m_comp_eq(ex, st, args, callee, ty))


def m_option_unwrap(ex, st, args, callee, ty):
    o = args[0]
    if not isinstance(o, Adt) or o.ty != "Option":
        raise Unsupported("Option::unwrap on %r" % (o,))
    if o.variant == 0:
        raise Panic("called `Option::unwrap()` on a `None` value")
    return o.fields[0]


def m_pathbuf_pop(ex, st, args, callee, ty):
    buf = _obj(ex, st, args[0])
    if not buf.comps:
        return B(False)
    # Path::parent(): None for "/" (a lone RootDir) and for ""
    if len(buf.comps) == 1:
        if ex.decide(st, i_eq(buf.comps[0].kind, I(ROOT))):
            return B(False)
    buf.comps.pop()
    return B(True)


def m_pathbuf_push(ex, st, args, callee, ty):
    buf = _obj(ex, st, args[0])
    v = _obj(ex, st, args[1])
    if isinstance(v, Comp):
        pathbuf_push_comp(ex, st, buf, v)
    elif isinstance(v, Str) and v.s is not None:
        for c in str_to_comps(v.s):
            pathbuf_push_comp(ex, st, buf, c)
    elif isinstance(v, PathM):
        for c in v.comps:
            pathbuf_push_comp(ex, st, buf, c)
    else:
        raise Unsupported("PathBuf::push of %r" % (v,))
    return UNIT


def str_to_comps(s):
    """Concrete string -> components (std's tokeniser, unix)."""
    out = []
    if s.startswith("/"):
        out.append(Comp(ROOT))
    parts = [p for p in s.split("/") if p != ""]
    for i, p in enumerate(parts):
        if p == ".":
            if i == 0 and not s.startswith("/"):
                out.append(Comp(CUR))
        elif p == "..":
            out.append(Comp(PARENT))
        else:
            out.append(Comp(NORMAL, I(("name", p).__hash__() % 1000003 + 1000)))
    return out


def m_deref(ex, st, args, callee, ty):
    return _last_ref(ex, st, args[0]) if isinstance(args[0], (Ref, BoxRef)) else BoxRef(args[0])


def m_path_is_empty(ex, st, args, callee, ty):
    p = _obj(ex, st, args[0])
    return B(len(p.comps) == 0)


def m_vec_new(ex, st, args, callee, ty):
    return VecM()


def m_vec_push(ex, st, args, callee, ty):
    v = _obj(ex, st, args[0])
    v.items.append(args[1])
    return UNIT


def m_vec_pop(ex, st, args, callee, ty):
    v = _obj(ex, st, args[0])
    if v.items:
        return opt_some(ex, v.items.pop())
    return opt_none(ex)


def m_vec_is_empty(ex, st, args, callee, ty):
    v = _obj(ex, st, args[0])
    return B(len(v.items) == 0)


def m_vec_extend_components(ex, st, args, callee, ty):
    v = _obj(ex, st, args[0])
    it = _obj(ex, st, args[1])
    if not isinstance(it, ComponentsM):
        raise Unsupported("Vec::extend from %r" % (it,))
    v.items.extend(it.comps)
    it.comps = []
    return UNIT


def m_slice_iter(ex, st, args, callee, ty):
    v = _obj(ex, st, args[0])
    return SliceIterM(v.items)


def m_collect_pathbuf(ex, st, args, callee, ty):
    it = _obj(ex, st, args[0])
    buf = PathBufM([])
    for c in it.items:
        pathbuf_push_comp(ex, st, buf, _obj(ex, st, c))
    return buf


def m_path_ne(ex, st, args, callee, ty):
    a, b = _obj(ex, st, args[0]), _obj(ex, st, args[1])
    return b_not(path_eq(a, b))


def m_path_eq(ex, st, args, callee, ty):
    a, b = _obj(ex, st, args[0]), _obj(ex, st, args[1])
    return path_eq(a, b)


def path_eq(a, b):
    """Path equality is component-wise equality."""
    if len(a.comps) != len(b.comps):
        return B(False)
    return b_and(*[comp_eq(x, y) for x, y in zip(a.comps, b.comps)])


def m_to_owned(ex, st, args, callee, ty):
    p = _obj(ex, st, args[0])
    return PathBufM(p.comps)


def m_generic_eq(ex, st, args, callee, ty):
    a, b = _obj(ex, st, args[0]), _obj(ex, st, args[1])
    if isinstance(a, Comp) and isinstance(b, Comp):
        return comp_eq(a, b)
    raise Unsupported("generic PartialEq::eq on %r, %r" % (a, b))


def rx(s):
    return re.compile(s)


PATH_MODELS = [
    (rx(r"^PathBuf::new$"), m_pathbuf_new),
    (rx(r"^<.* as AsRef<Path>>::as_ref$"), m_as_ref),
    (rx(r"^Path::components$"), m_components),
    (rx(r"^<Components<'_> as IntoIterator>::into_iter$"), m_identity),
    (rx(r"^<Components<'_> as Iterator>::by_ref$"), m_identity),
    (rx(r"^<Components<'_> as Iterator>::next$"), m_components_next),
    (rx(r"^<Components<'_> as Iterator>::last$"), m_components_last),
    (rx(r"^<Component<'_> as PartialEq>::eq$"), m_comp_eq),
    (rx(r"^<Component<'_> as PartialEq>::ne$"), m_comp_ne),
    (rx(r"^Option::<Component<'_>>::unwrap$"), m_option_unwrap),
    (rx(r"^PathBuf::pop$"), m_pathbuf_pop),
    (rx(r"^PathBuf::push::<(Component<'_>|&str|&Path|PathBuf|&PathBuf)>$"), m_pathbuf_push),
    (rx(r"^<PathBuf as Deref>::deref$"), m_deref),
    (rx(r"^<Vec<Component<'_>> as Deref>::deref$"), m_deref),
    (rx(r"^Vec::<Component<'_>>::new$"), m_vec_new),
    (rx(r"^Vec::<Component<'_>>::push$"), m_vec_push),
    (rx(r"^Vec::<Component<'_>>::is_empty$"), m_vec_is_empty),
    (rx(r"^<Vec<Component<'_>> as Extend<Component<'_>>>::extend::<&mut Components<'_>>$"), m_vec_extend_components),
    (rx(r"^core::slice::<impl \[Component<'_>\]>::iter$"), m_slice_iter),
    (rx(r"^<std::slice::Iter<'_, Component<'_>> as Iterator>::collect::<PathBuf>$"), m_collect_pathbuf),
    (rx(r"^<&Path as PartialEq>::ne$"), m_path_ne),
    (rx(r"^<&Path as PartialEq>::eq$"), m_path_eq),
    (rx(r"^<Path as ToOwned>::to_owned$"), m_to_owned),
    (rx(r"^<T as Into<PathBuf>>::into$"), m_to_owned),
    (rx(r"^<PathBuf as PartialEq>::eq$"), m_path_eq),
    (rx(r"^<U as PartialEq<T>>::eq$"), m_generic_eq),
    (rx(r"^Path::to_path_buf$"), m_to_owned),
]


def component_enum_hook(ty, vn, vals):
    if ty == "Component":
        kind = ["Prefix", "RootDir", "CurDir", "ParentDir", "Normal"].index(vn)
        return Comp(kind)
    return None
