"""Bounded sequence models of the std types rivia's lexical path code is written against.

These are *environment stubs* in the sense of the brief: each models the documented contract of a
std type (not rivia code) and each is validated against the real std implementation every run by
`validate_models` (differential native test).  rivia's own logic is never modelled: it is executed
from its MIR.

Component kinds follow rustc's discriminants of std::path::Component:
  0 Prefix (never on unix), 1 RootDir, 2 CurDir, 3 ParentDir, 4 Normal(atom)
"""
import re

from .engine import Panic, Unsupported, strip_generics
from .values import B, BV, I, UNIT, Adt, BoxRef, Ref, Str, b_and, b_implies, b_not, b_or, i_eq

ROOT, CUR, PARENT, NORMAL = 1, 2, 3, 4


class Comp:
    """std::path::Component: kind (I) and, for Normal, a name atom (I)."""
    __slots__ = ("kind", "atom")
    immutable = True

    def __init__(self, kind, atom=None):
        self.kind = kind if isinstance(kind, I) else I(kind)
        self.atom = atom if atom is not None else I(0)

    def discriminant(self):
        return self.kind

    def downcast(self, name):
        return self

    def get_field(self, n):
        return Str(sym=("atom", self.atom))

    def __repr__(self):
        return "Comp(%s,%s)" % (self.kind.v, self.atom.v)


def comp_eq(a, b):
    return b_and(i_eq(a.kind, b.kind), b_implies(i_eq(a.kind, I(NORMAL)), i_eq(a.atom, b.atom)))


class PathM:
    """A borrowed `Path` = its component sequence (what `Path::components` yields)."""

    def __init__(self, comps):
        self.comps = list(comps)

    def __repr__(self):
        return "PathM(%s)" % self.comps


class PathBufM(PathM):
    pass


class ComponentsM:
    """Double ended iterator over a component sequence."""

    def __init__(self, comps):
        self.comps = list(comps)

    def __repr__(self):
        return "ComponentsM(%s)" % self.comps


class VecM:
    def __init__(self, items=()):
        self.items = list(items)

    def __repr__(self):
        return "VecM(%s)" % self.items


class SliceIterM(VecM):
    pass


def opt_some(ex, v):
    return Adt("Option", 1, "Some", [v])


def opt_none(ex):
    return Adt("Option", 0, "None", [])


def _obj(ex, st, v):
    """Follow references down to a model object."""
    while isinstance(v, (Ref, BoxRef)):
        v = ex.deref(st, v)
    return v


# --------------------------------------------------------------------------------------------
# PathBuf::push semantics on component sequences (unix):
#   pushing an absolute path replaces the buffer; otherwise components are appended, except that a
#   pushed `.` that is not the first component of the resulting path disappears when the buffer is
#   later re-parsed (Components normalises inner CurDir away).
# --------------------------------------------------------------------------------------------
def pathbuf_push_comp(ex, st, buf, c):
    is_root = i_eq(c.kind, I(ROOT))
    if ex.decide(st, is_root):
        buf.comps = [c]
        return
    is_cur = i_eq(c.kind, I(CUR))
    if buf.comps and ex.decide(st, is_cur):
        return  # "a" + "." = "a/." which re-parses as [a]
    buf.comps.append(c)


def m_pathbuf_new(ex, st, args, callee, ty):
    return PathBufM([])


def m_as_ref(ex, st, args, callee, ty):
    v = _obj(ex, st, args[0])
    if isinstance(v, (PathM, Str)):
        return BoxRef(v) if not isinstance(args[0], (Ref, BoxRef)) else _last_ref(ex, st, args[0])
    raise Unsupported("AsRef::as_ref on %r" % (v,))


def _last_ref(ex, st, r):
    """Resolve reference chains `&&Path` to the innermost reference."""
    while True:
        t = ex.deref(st, r)
        if isinstance(t, (Ref, BoxRef)):
            r = t
        else:
            return r


def m_components(ex, st, args, callee, ty):
    p = _obj(ex, st, args[0])
    if not isinstance(p, PathM):
        raise Unsupported("Path::components on %r" % (p,))
    return ComponentsM(p.comps)


def m_identity(ex, st, args, callee, ty):
    return args[0]


def m_components_next(ex, st, args, callee, ty):
    it = _obj(ex, st, args[0])
    if not isinstance(it, ComponentsM):
        raise Unsupported("Components::next on %r" % (it,))
    if it.comps:
        return opt_some(ex, it.comps.pop(0))
    return opt_none(ex)


def m_components_last(ex, st, args, callee, ty):
    it = _obj(ex, st, args[0])
    if it.comps:
        return opt_some(ex, it.comps[-1])
    return opt_none(ex)


def m_comp_eq(ex, st, args, callee, ty):
    a, b = _obj(ex, st, args[0]), _obj(ex, st, args[1])
    return comp_eq(a, b)


def m_comp_ne(ex, st, args, callee, ty):
    return b_not(m_comp_eq(ex, st, args, callee, ty))


def m_option_unwrap(ex, st, args, callee, ty):
    o = args[0]
    if not isinstance(o, Adt) or o.ty != "Option":
        raise Unsupported("Option::unwrap on %r" % (o,))
    if o.variant == 0:
        raise Panic("called `Option::unwrap()` on a `None` value")
    return o.fields[0]


def m_pathbuf_pop(ex, st, args, callee, ty):
    buf = _obj(ex, st, args[0])
    if not buf.comps:
        return B(False)
    # Path::parent(): None for "/" (a lone RootDir) and for ""
    if len(buf.comps) == 1:
        if ex.decide(st, i_eq(buf.comps[0].kind, I(ROOT))):
            return B(False)
    buf.comps.pop()
    return B(True)


def m_pathbuf_push(ex, st, args, callee, ty):
    buf = _obj(ex, st, args[0])
    v = _obj(ex, st, args[1])
    if isinstance(v, Comp):
        pathbuf_push_comp(ex, st, buf, v)
    elif isinstance(v, Str) and v.s is not None:
        for c in str_to_comps(v.s):
            pathbuf_push_comp(ex, st, buf, c)
    elif isinstance(v, PathM):
        for c in v.comps:
            pathbuf_push_comp(ex, st, buf, c)
    else:
        raise Unsupported("PathBuf::push of %r" % (v,))
    return UNIT


def str_to_comps(s):
    """Concrete string -> components (std's tokeniser, unix)."""
    out = []
    if s.startswith("/"):
        out.append(Comp(ROOT))
    parts = [p for p in s.split("/") if p != ""]
    for i, p in enumerate(parts):
        if p == ".":
            if i == 0 and not s.startswith("/"):
                out.append(Comp(CUR))
        elif p == "..":
            out.append(Comp(PARENT))
        else:
            out.append(Comp(NORMAL, I(("name", p).__hash__() % 1000003 + 1000)))
    return out


def m_deref(ex, st, args, callee, ty):
    return _last_ref(ex, st, args[0]) if isinstance(args[0], (Ref, BoxRef)) else BoxRef(args[0])


def m_path_is_empty(ex, st, args, callee, ty):
    p = _obj(ex, st, args[0])
    return B(len(p.comps) == 0)


def m_vec_new(ex, st, args, callee, ty):
    return VecM()


def m_vec_push(ex, st, args, callee, ty):
    v = _obj(ex, st, args[0])
    v.items.append(args[1])
    return UNIT


def m_vec_pop(ex, st, args, callee, ty):
    v = _obj(ex, st, args[0])
    if v.items:
        return opt_some(ex, v.items.pop())
    return opt_none(ex)


def m_vec_is_empty(ex, st, args, callee, ty):
    v = _obj(ex, st, args[0])
    return B(len(v.items) == 0)


def m_vec_extend_components(ex, st, args, callee, ty):
    v = _obj(ex, st, args[0])
    it = _obj(ex, st, args[1])
    if not isinstance(it, ComponentsM):
        raise Unsupported("Vec::extend from %r" % (it,))
    v.items.extend(it.comps)
    it.comps = []
    return UNIT


def m_slice_iter(ex, st, args, callee, ty):
    v = _obj(ex, st, args[0])
    return SliceIterM(v.items)


def m_collect_pathbuf(ex, st, args, callee, ty):
    it = _obj(ex, st, args[0])
    if isinstance(it, LazyIter):
        return DrainCont(it, "pathbuf_comp").start(ex, st)
    buf = PathBufM([])
    for c in it.items:
        pathbuf_push_comp(ex, st, buf, _obj(ex, st, c))
    return buf


def m_path_ne(ex, st, args, callee, ty):
    a, b = _obj(ex, st, args[0]), _obj(ex, st, args[1])
    return b_not(path_eq(a, b))


def m_path_eq(ex, st, args, callee, ty):
    a, b = _obj(ex, st, args[0]), _obj(ex, st, args[1])
    return path_eq(a, b)


def path_eq(a, b):
    """Path equality is component-wise equality."""
    if len(a.comps) != len(b.comps):
        return B(False)
    return b_and(*[comp_eq(x, y) for x, y in zip(a.comps, b.comps)])


def m_to_owned(ex, st, args, callee, ty):
    p = _obj(ex, st, args[0])
    return PathBufM(p.comps)


def m_pathbuf_from_any(ex, st, args, callee, ty):
    v = _obj(ex, st, args[0])
    if isinstance(v, Comp):
        return PathBufM([v])
    if isinstance(v, Str) and v.s is not None:
        return PathBufM(str_to_comps(v.s))
    if isinstance(v, PathM):
        return PathBufM(v.comps)
    raise Unsupported("PathBuf::from(%r)" % (v,))


def m_file_name_comp(ex, st, args, callee, ty):
    p = _obj(ex, st, args[0])
    if p.comps and ex.decide(st, i_eq(p.comps[-1].kind, I(NORMAL))):
        return opt_some(ex, Str(sym=("atom", p.comps[-1].atom)))
    return opt_none(ex)


def m_generic_eq(ex, st, args, callee, ty):
    a, b = _obj(ex, st, args[0]), _obj(ex, st, args[1])
    if isinstance(a, Comp) and isinstance(b, Comp):
        return comp_eq(a, b)
    raise Unsupported("generic PartialEq::eq on %r, %r" % (a, b))


def rx(s):
    return re.compile(s)


PATH_MODELS = [
    (rx(r"^PathBuf::new$"), m_pathbuf_new),
    (rx(r"^<.* as AsRef<Path>>::as_ref$"), m_as_ref),
    (rx(r"^Path::components$"), m_components),
    (rx(r"^<Components<'_> as IntoIterator>::into_iter$"), m_identity),
    (rx(r"^<Components<'_> as Iterator>::by_ref$"), m_identity),
    (rx(r"^<Components<'_> as Iterator>::next$"), m_components_next),
    (rx(r"^<Components<'_> as Iterator>::last$"), m_components_last),
    (rx(r"^<Component<'_> as PartialEq>::eq$"), m_comp_eq),
    (rx(r"^<Component<'_> as PartialEq>::ne$"), m_comp_ne),
    (rx(r"^<&Component<'_> as PartialEq>::eq$"), m_comp_eq),
    (rx(r"^Option::<Component<'_>>::unwrap$"), m_option_unwrap),
    (rx(r"^PathBuf::pop$"), m_pathbuf_pop),
    (rx(r"^PathBuf::push::<(Component<'_>|&str|&Path|PathBuf|&PathBuf)>$"), m_pathbuf_push),
    (rx(r"^<PathBuf as Deref>::deref$"), m_deref),
    (rx(r"^<Vec<Component<'_>> as Deref>::deref$"), m_deref),
    (rx(r"^Vec::<Component<'_>>::new$"), m_vec_new),
    (rx(r"^Vec::<Component<'_>>::push$"), m_vec_push),
    (rx(r"^Vec::<Component<'_>>::is_empty$"), m_vec_is_empty),
    (rx(r"^<Vec<Component<'_>> as Extend<Component<'_>>>::extend::<&mut Components<'_>>$"), m_vec_extend_components),
    (rx(r"^(?:core::slice::)?<impl \[Component<'_>\]>::iter$"), m_slice_iter),
    (rx(r"^<(?:std::slice::)?Iter<'_, Component<'_>> as Iterator>::collect::<PathBuf>$"), m_collect_pathbuf),
    (rx(r"^<(?:std::iter::)?(Map|Filter|SkipWhile|TakeWhile|Take|Skip|Chain)<.*> as Iterator>::collect::<PathBuf>$"), m_collect_pathbuf),
    (rx(r"^<&Path as PartialEq>::ne$"), m_path_ne),
    (rx(r"^<&Path as PartialEq>::eq$"), m_path_eq),
    (rx(r"^<Path as ToOwned>::to_owned$"), m_to_owned),
    (rx(r"^<T as Into<PathBuf>>::into$"), m_to_owned),
    (rx(r"^Path::file_name$"), m_file_name_comp),
    (rx(r"^Component::<'_>::as_os_str$"), m_identity),
    (rx(r"^<PathBuf as From<(&OsStr|&str|String|&Path)>>::from$"), m_pathbuf_from_any),
    (rx(r"^<PathBuf as PartialEq>::eq$"), m_path_eq),
    (rx(r"^<U as PartialEq<T>>::eq$"), m_generic_eq),
    (rx(r"^Path::to_path_buf$"), m_to_owned),
]


def component_enum_hook(ty, vn, vals):
    if ty == "Component":
        kind = ["Prefix", "RootDir", "CurDir", "ParentDir", "Normal"].index(vn)
        if kind == NORMAL and vals and isinstance(vals[0], Str) and isinstance(vals[0].sym, tuple):
            return Comp(kind, vals[0].sym[1])
        return Comp(kind)
    return None


# ================================================================================================
# Environment / string / path-term models for the XDG lookups (C18)
#
# Strings are abstract: a literal is identified by its text, an environment value by a symbolic Int.
# Paths are terms over uninterpreted functions  pathof: S -> P  and  mash: P x S -> P , so the
# solver decides equality of results "under every environment and every behaviour of mash".
# ================================================================================================
class PT:
    """PathBuf / &Path as a term of sort P."""
    __slots__ = ("term",)
    immutable = True

    def __init__(self, term):
        self.term = term

    def __repr__(self):
        return "PT(%s)" % self.term


class UninitBox:
    """`Box::<[T; N]>::new_uninit()` as lowered by `vec![..]`: a cell that receives the array."""
    deref_self = True

    def __init__(self):
        self.content = None

    def get_field(self, n):
        return self

    def set_field(self, n, v):
        if v is not self:
            self.content = v


class VecIterM(VecM):
    pass


class SplitM:
    def __init__(self, segs):
        self.segs = list(segs)


class SegStr:
    """A string derived from an environment value, given by its ':'-separated segments."""
    immutable = True

    def __init__(self, segs):
        self.segs = list(segs)


class Env:
    """Symbolic process environment + string table, shared by one job (declares solver symbols)."""

    def __init__(self, solver, max_segs):
        self.solver, self.max_segs = solver, max_segs
        self.lits = {}
        solver.declare_sort("P")
        solver.declare_fun("pathof", ["Int"], "P")
        solver.declare_fun("mash", ["P", "Int"], "P")
        solver.declare_fun("fs_exists", ["P"], "Bool")
        solver.declare_fun("parse_ok", ["Int"], "Bool")
        solver.declare_fun("parse_val", ["Int"], "(_ BitVec 32)")
        self.vars = set()

    def lit(self, s):
        if s not in self.lits:
            self.lits[s] = -(len(self.lits) + 1)
        return I(self.lits[s])

    def str_term(self, v):
        if isinstance(v, Str):
            if v.s is not None:
                return self.lit(v.s)
            return v.sym
        raise Unsupported("not a string: %r" % (v,))

    def var_syms(self, name):
        if name not in self.vars:
            self.vars.add(name)
            self.solver.declare("set_" + name, "Bool")
            self.solver.declare("val_" + name, "Int")
            self.solver.raw("(assert (>= val_%s 0))" % name)
            self.solver.declare("nseg_" + name, "Int")
            self.solver.raw("(assert (and (>= nseg_%s 1) (<= nseg_%s %d)))" % (name, name, self.max_segs))
            for j in range(self.max_segs):
                self.solver.declare("seg_%s_%d" % (name, j), "Int")
                self.solver.raw("(assert (>= seg_%s_%d 0))" % (name, j))
                self.solver.declare("segempty_%s_%d" % (name, j), "Bool")
        return B("set_" + name), I("val_" + name)


def make_env_models(env):
    def m_var(ex, st, args, callee, ty):
        name = args[0]
        if not (isinstance(name, Str) and name.s is not None):
            raise Unsupported("env::var of a non-constant name %r" % (name,))
        is_set, val = env.var_syms(name.s)
        if ex.decide(st, is_set):
            return Adt("Result", 0, "Ok", [Str(sym=val)])
        return Adt("Result", 1, "Err", [Adt("VarError", 0, "NotPresent", [])])

    def m_pathbuf_from_str(ex, st, args, callee, ty):
        s = _obj(ex, st, args[0])
        return PT("(pathof %s)" % env.str_term(s).smt())

    def m_mash(ex, st, args, callee, ty):
        p = _obj(ex, st, args[0])
        s = _obj(ex, st, args[1])
        if not isinstance(p, PT):
            raise Unsupported("mash on %r" % (p,))
        return PT("(mash %s %s)" % (p.term, env.str_term(s).smt()))

    def m_try_branch(ex, st, args, callee, ty):
        r = args[0]
        if not (isinstance(r, Adt) and r.ty == "Result"):
            raise Unsupported("Try::branch on %r" % (r,))
        if r.variant == 0:
            return Adt("ControlFlow", 0, "Continue", [r.fields[0]])
        return Adt("ControlFlow", 1, "Break", [Adt("Result", 1, "Err", [r.fields[0]])])

    def m_from_residual(ex, st, args, callee, ty):
        r = args[0]
        return Adt("Result", 1, "Err", [Adt("RvError", None, "from", [r.fields[0]])])

    def m_new_uninit(ex, st, args, callee, ty):
        return UninitBox()

    def m_into_vec(ex, st, args, callee, ty):
        b = args[0]
        if not isinstance(b, UninitBox) or b.content is None:
            raise Unsupported("box_assume_init_into_vec on %r" % (b,))
        return VecM(b.content.fields)

    def m_str_as_ref(ex, st, args, callee, ty):
        v = _obj(ex, st, args[0])
        if isinstance(v, (Str, SegStr)):
            return v
        raise Unsupported("AsRef<str> on %r" % (v,))

    def env_segments(ex, st, s):
        if isinstance(s, SegStr):
            return list(s.segs)
        if not (isinstance(s, Str) and s.sym is not None and not s.sym.concrete and s.sym.v.startswith("val_")):
            raise Unsupported("segments of %r" % (s,))
        name = s.sym.v[4:]
        n = 1
        while n < env.max_segs and not ex.decide(st, i_eq(I("nseg_" + name), I(n))):
            n += 1
        st.meta.setdefault("split", {})[name] = n
        return [Str(sym=I("seg_%s_%d" % (name, j))) for j in range(n)]

    def seg_empty(seg):
        if seg.s is not None:
            return B(len(seg.s) == 0)
        return B("segempty_" + seg.sym.v[4:])

    def m_split(ex, st, args, callee, ty):
        s = _obj(ex, st, args[0])
        sep = args[1]
        if not (isinstance(sep, BV) and sep.concrete and sep.v == ord(":")):
            raise Unsupported("str::split with separator %r" % (sep,))
        return SplitM(env_segments(ex, st, s))

    def m_trim_matches(ex, st, args, callee, ty):
        s = _obj(ex, st, args[0])
        sep = args[1]
        if not (isinstance(sep, BV) and sep.concrete and sep.v == ord(":")):
            raise Unsupported("str::trim_matches with pattern %r" % (sep,))
        segs = env_segments(ex, st, s)
        which = callee.split("::")[-2] if callee.endswith(">") else callee.split("::")[-1]
        front = "trim_matches" in callee or "trim_start_matches" in callee
        back = "trim_matches" in callee or "trim_end_matches" in callee
        # an empty leading/trailing segment means the string starts/ends with ':'
        while front and len(segs) > 1 and ex.decide(st, seg_empty(segs[0])):
            segs.pop(0)
        while back and len(segs) > 1 and ex.decide(st, seg_empty(segs[-1])):
            segs.pop()
        return SegStr(segs)

    def m_split_next(ex, st, args, callee, ty):
        it = _obj(ex, st, args[0])
        if it.segs:
            return opt_some(ex, it.segs.pop(0))
        return opt_none(ex)

    def m_str_is_empty(ex, st, args, callee, ty):
        s = _obj(ex, st, args[0])
        if isinstance(s, Str) and s.s is not None:
            return B(len(s.s) == 0)
        if isinstance(s, SegStr):
            return seg_empty(s.segs[0]) if len(s.segs) == 1 else B(False)
        t = s.sym.v
        if t.startswith("seg_"):
            return B("segempty_" + t[4:])
        raise Unsupported("str::is_empty on %r" % (s,))

    def m_vec_new(ex, st, args, callee, ty):
        return VecM()

    def m_vec_insert(ex, st, args, callee, ty):
        v = _obj(ex, st, args[0])
        idx = args[1]
        if not (isinstance(idx, BV) and idx.concrete):
            raise Unsupported("Vec::insert at symbolic index")
        if idx.v > len(v.items):
            raise Panic("Vec::insert index out of bounds")
        v.items.insert(idx.v, args[2])
        return UNIT

    def m_vec_into_iter(ex, st, args, callee, ty):
        v = _obj(ex, st, args[0])
        return VecIterM(v.items)

    def m_vec_iter_next(ex, st, args, callee, ty):
        it = _obj(ex, st, args[0])
        if it.items:
            return opt_some(ex, it.items.pop(0))
        return opt_none(ex)

    def m_exists(ex, st, args, callee, ty):
        p = _obj(ex, st, args[-1])
        if not isinstance(p, PT):
            raise Unsupported("exists on %r" % (p,))
        st.meta.setdefault("exists_calls", []).append(p.term)
        return B("(fs_exists %s)" % p.term)

    def m_string_deref(ex, st, args, callee, ty):
        return _last_ref(ex, st, args[0]) if isinstance(args[0], (Ref, BoxRef)) else BoxRef(args[0])

    def m_parse_u32(ex, st, args, callee, ty):
        s = _obj(ex, st, args[0])
        t = env.str_term(s).smt()
        if ex.decide(st, B("(parse_ok %s)" % t)):
            return Adt("Result", 0, "Ok", [BV(32, False, "(parse_val %s)" % t)])
        return Adt("Result", 1, "Err", [Adt("ParseIntError", None, None, [])])

    return [
        (rx(r"^(std::env::)?var::<&str>$"), m_var),
        (rx(r"^<PathBuf as From<(String|&str)>>::from$"), m_pathbuf_from_str),
        (rx(r"^<Path as (?:sys::fs::path::)?PathExt>::mash::<&str>$"), m_mash),
        (rx(r"^<Result<.*> as Try>::branch$"), m_try_branch),
        (rx(r"^<Result<.*> as FromResidual<Result<Infallible, .*>>>::from_residual$"), m_from_residual),
        (rx(r"^Box::<\[.*; \d+\]>::new_uninit$"), m_new_uninit),
        (rx(r"^(?:std::boxed::)?box_assume_init_into_vec_unsafe::<.*, \d+>$"), m_into_vec),
        (rx(r"^<.* as AsRef<str>>::as_ref$"), m_str_as_ref),
        (rx(r"^core::str::<impl str>::split::<char>$"), m_split),
        (rx(r"^(?:core::)?str::<impl str>::trim(_start|_end)?_matches::<char>$"), m_trim_matches),
        (rx(r"^<(?:std::str::)?Split<'_, char> as IntoIterator>::into_iter$"), m_identity),
        (rx(r"^<(?:std::str::)?Split<'_, char> as Iterator>::next$"), m_split_next),
        (rx(r"^core::str::<impl str>::is_empty$"), m_str_is_empty),
        (rx(r"^Vec::<PathBuf>::new$"), m_vec_new),
        (rx(r"^Vec::<PathBuf>::push$"), m_vec_push),
        (rx(r"^Vec::<PathBuf>::is_empty$"), m_vec_is_empty),
        (rx(r"^Vec::<PathBuf>::insert$"), m_vec_insert),
        (rx(r"^<Vec<PathBuf> as IntoIterator>::into_iter$"), m_vec_into_iter),
        (rx(r"^<(?:std::vec::)?IntoIter<PathBuf> as Iterator>::next$"), m_vec_iter_next),
        (rx(r"^<PathBuf as Deref>::deref$"), m_deref),
        (rx(r"^<String as Deref>::deref$"), m_string_deref),
        (rx(r"^core::str::<impl str>::parse::<u32>$"), m_parse_u32),
        (rx(r"^<(?:memfs::vfs::)?Memfs as (?:sys::fs::vfs::)?VirtualFileSystem>::exists::<PathBuf>$"), m_exists),
        (rx(r"^stdfs::Stdfs::exists::<PathBuf>$"), m_exists),
    ]


# ================================================================================================
# chmod::mode models (C11): the symbolic string is a char array of concrete length
# ================================================================================================
class CharStr:
    """&str given as its chars (each a BV32, possibly symbolic)."""
    immutable = True

    def __init__(self, chars):
        self.chars = list(chars)


class EntryM:
    """A VfsEntry seen through its accessors: symbolic flags and mode."""
    immutable = True

    def __init__(self, is_dir, is_file, is_symlink, mode):
        self.is_dir, self.is_file, self.is_symlink, self.mode = is_dir, is_file, is_symlink, mode


def m_try_branch_generic(ex, st, args, callee, ty):
    r = args[0]
    if not (isinstance(r, Adt) and r.ty == "Result"):
        raise Unsupported("Try::branch on %r" % (r,))
    if r.variant == 0:
        return Adt("ControlFlow", 0, "Continue", [r.fields[0]])
    return Adt("ControlFlow", 1, "Break", [Adt("Result", 1, "Err", [r.fields[0]])])


def m_from_residual_generic(ex, st, args, callee, ty):
    r = args[0]
    return Adt("Result", 1, "Err", [r.fields[0]])


def make_chmod_models():
    def m_is_empty(ex, st, args, callee, ty):
        s = _obj(ex, st, args[0])
        return B(len(s.chars) == 0)

    def m_chars(ex, st, args, callee, ty):
        return VecM(_obj(ex, st, args[0]).chars)

    def m_rev(ex, st, args, callee, ty):
        return VecM(list(reversed(args[0].items)))

    def m_collect(ex, st, args, callee, ty):
        return VecM(args[0].items)

    def m_unwrap(ex, st, args, callee, ty):
        o = args[0]
        if o.variant == 0:
            raise Panic("called `Option::unwrap()` on a `None` value")
        return o.fields[0]

    def m_to_string(ex, st, args, callee, ty):
        return _obj(ex, st, args[0])

    def m_into(ex, st, args, callee, ty):
        return Adt("RvError", None, "Vfs", [args[0]])

    def m_entry(attr):
        def f(ex, st, args, callee, ty):
            return getattr(_obj(ex, st, args[0]), attr)
        return f

    def m_state_eq(ex, st, args, callee, ty):
        a, b = _obj(ex, st, args[0]), _obj(ex, st, args[1])
        return B(a.variant == b.variant)

    return [
        (rx(r"^core::str::<impl str>::is_empty$"), m_is_empty),
        (rx(r"^core::str::<impl str>::chars$"), m_chars),
        (rx(r"^<Chars<'_> as Iterator>::rev$"), m_rev),
        (rx(r"^<Rev<Chars<'_>> as Iterator>::collect::<Vec<char>>$"), m_collect),
        (rx(r"^Vec::<char>::pop$"), m_vec_pop),
        (rx(r"^Vec::<char>::is_empty$"), m_vec_is_empty),
        (rx(r"^Option::<char>::unwrap$"), m_unwrap),
        (rx(r"^<str as ToString>::to_string$"), m_to_string),
        (rx(r"^<(?:errors::vfs::)?VfsError as Into<RvError>>::into$"), m_into),
        (rx(r"^<(?:sys::fs::entry::)?VfsEntry as (?:sys::fs::entry::)?Entry>::mode$"), m_entry("mode")),
        (rx(r"^<(?:sys::fs::entry::)?VfsEntry as (?:sys::fs::entry::)?Entry>::is_symlink$"), m_entry("is_symlink")),
        (rx(r"^<(?:sys::fs::entry::)?VfsEntry as (?:sys::fs::entry::)?Entry>::is_dir$"), m_entry("is_dir")),
        (rx(r"^<(?:sys::fs::entry::)?VfsEntry as (?:sys::fs::entry::)?Entry>::is_file$"), m_entry("is_file")),
        (rx(r"^<State as PartialEq>::eq$"), m_state_eq),
        (rx(r"^<Result<.*> as Try>::branch$"), m_try_branch_generic),
        (rx(r"^<Result<.*> as FromResidual<Result<Infallible, .*>>>::from_residual$"), m_from_residual_generic),
    ]


# ================================================================================================
# Text model: a &str / String is a sequence of chars of concrete length whose code points are
# symbolic BV32 values.  Byte offsets are computed from UTF-8 lengths, so byte-index slicing is
# faithful for multi-byte characters (`is_char_boundary` panics included).
# ================================================================================================
class SStr:
    immutable = True

    def __init__(self, chars):
        self.chars = list(chars)

    def __repr__(self):
        return "SStr(%d)" % len(self.chars)


def utf8_len(c):
    """UTF-8 length of a char (BV32) as a BV64 term."""
    if c.concrete:
        v = c.v
        return BV(64, False, 1 if v < 0x80 else 2 if v < 0x800 else 3 if v < 0x10000 else 4)
    t = c.smt()
    return BV(64, False, "(ite (bvult %s #x00000080) (_ bv1 64) (ite (bvult %s #x00000800) (_ bv2 64) "
                         "(ite (bvult %s #x00010000) (_ bv3 64) (_ bv4 64))))" % (t, t, t))


def bv_sum(xs, w=64):
    from .values import bv_bin
    acc = BV(w, False, 0)
    for x in xs:
        acc = bv_bin("Add", acc, x)
    return acc


def sstr_of(ex, st, v):
    v = _obj(ex, st, v)
    if isinstance(v, SStr):
        return v
    if isinstance(v, BV) and v.w == 32:
        return SStr([v])  # a char used as a pattern
    if hasattr(v, "chars") and isinstance(getattr(v, "chars"), list):
        return SStr(v.chars)
    if isinstance(v, Str) and v.s is not None:
        return SStr([BV(32, False, ord(ch)) for ch in v.s])
    raise Unsupported("not a text value: %r" % (v,))


def chars_eq(a, b):
    from .values import bv_bin
    return b_and(*[bv_bin("Eq", x, y) for x, y in zip(a, b)])


def ascii_lower(c):
    if c.concrete:
        return BV(32, False, c.v + 32 if 65 <= c.v <= 90 else c.v)
    t = c.smt()
    return BV(32, False, "(ite (and (bvuge %s #x00000041) (bvule %s #x0000005a)) (bvadd %s #x00000020) %s)" % (t, t, t, t))


class FmtArgs:
    immutable = True

    def __init__(self, template, args):
        self.template, self.args = template, args


def make_text_models():
    from .values import bv_bin
    from .engine import Bytes

    def m_new_display(ex, st, args, callee, ty):
        return Adt("fmt::Argument", None, "display", [sstr_of(ex, st, args[0])])

    def m_new_debug(ex, st, args, callee, ty):
        """`{:?}` of a str / String / Path / PathBuf: the text in double quotes (escapes are not modelled: the text must not
        contain quotes, backslashes or control characters - stated with the jobs that use it)"""
        q = BV(32, False, ord('"'))
        return Adt("fmt::Argument", None, "debug", [SStr([q] + list(sstr_of(ex, st, args[0]).chars) + [q])])

    def m_panic_fmt(ex, st, args, callee, ty):
        msg = m_format(ex, st, args, callee, ty)
        ex.last_panic_fmt = msg
        raise Panic("panic_fmt: " + "".join(chr(c.v) if c.concrete else "?" for c in msg.chars))

    def m_arguments_new(ex, st, args, callee, ty):
        t = _obj(ex, st, args[0])
        arr = _obj(ex, st, args[1])
        if not isinstance(t, Bytes):
            raise Unsupported("format template %r" % (t,))
        return FmtArgs(t.b, [a.fields[0] for a in arr.fields])

    def m_format(ex, st, args, callee, ty):
        fa = _obj(ex, st, args[0])
        if not isinstance(fa, FmtArgs):
            raise Unsupported("fmt::format of %r" % (fa,))
        b, out, i, nxt = fa.template, [], 0, 0
        while i < len(b):
            c = b[i]
            if c == 0:
                break
            if c == 0xC0:
                if nxt >= len(fa.args):
                    raise Unsupported("format template uses more arguments than given")
                out += fa.args[nxt].chars
                nxt += 1
                i += 1
            elif c < 0x80:
                lit = b[i + 1:i + 1 + c].decode("utf-8")
                out += [BV(32, False, ord(x)) for x in lit]
                i += 1 + c
            else:
                raise Unsupported("format template byte 0x%02x (formatting options are not modelled)" % c)
        return SStr(out)

    def m_identity1(ex, st, args, callee, ty):
        return args[0]

    def m_display(ex, st, args, callee, ty):
        return sstr_of(ex, st, args[0])

    def m_chars(ex, st, args, callee, ty):
        return VecM(sstr_of(ex, st, args[0]).chars)

    def m_count(ex, st, args, callee, ty):
        return BV(64, False, len(args[0].items))

    def m_len(ex, st, args, callee, ty):
        return bv_sum([utf8_len(c) for c in sstr_of(ex, st, args[0]).chars])

    def m_is_empty(ex, st, args, callee, ty):
        return B(len(sstr_of(ex, st, args[0]).chars) == 0)

    def m_into_string(ex, st, args, callee, ty):
        return sstr_of(ex, st, args[0])

    def m_ends_with(ex, st, args, callee, ty):
        s, t = sstr_of(ex, st, args[0]), sstr_of(ex, st, args[1])
        if len(t.chars) > len(s.chars):
            return B(False)
        if not t.chars:
            return B(True)
        return chars_eq(s.chars[len(s.chars) - len(t.chars):], t.chars)

    def m_starts_with(ex, st, args, callee, ty):
        s, t = sstr_of(ex, st, args[0]), sstr_of(ex, st, args[1])
        if len(t.chars) > len(s.chars):
            return B(False)
        if not t.chars:
            return B(True)
        return chars_eq(s.chars[:len(t.chars)], t.chars)

    def m_contains(ex, st, args, callee, ty):
        s, t = sstr_of(ex, st, args[0]), sstr_of(ex, st, args[1])
        n, k = len(s.chars), len(t.chars)
        if k > n:
            return B(False)
        return b_or(*[chars_eq(s.chars[i:i + k], t.chars) if k else B(True) for i in range(n - k + 1)])

    def boundary(ex, st, s, idx, what):
        """number of chars before byte offset idx; panics like std when idx is not a char boundary"""
        for k in range(len(s.chars) + 1):
            b = bv_sum([utf8_len(c) for c in s.chars[:k]])
            if ex.decide(st, bv_bin("Eq", idx, b)):
                return k
        raise Panic("byte index is out of range or not a char boundary (%s)" % what)

    def m_index_to(ex, st, args, callee, ty):
        s = sstr_of(ex, st, args[0])
        end = args[1].fields[0]
        return SStr(s.chars[:boundary(ex, st, s, end, "str[..end]")])

    def m_index_from(ex, st, args, callee, ty):
        s = sstr_of(ex, st, args[0])
        start = args[1].fields[0]
        return SStr(s.chars[boundary(ex, st, s, start, "str[start..]"):])

    def m_index_range(ex, st, args, callee, ty):
        s = sstr_of(ex, st, args[0])
        a, b = args[1].fields[0], args[1].fields[1]
        i, j = boundary(ex, st, s, a, "str[a..b] start"), boundary(ex, st, s, b, "str[a..b] end")
        if i > j:
            raise Panic("slice index starts after it ends")
        return SStr(s.chars[i:j])

    def m_to_owned(ex, st, args, callee, ty):
        return sstr_of(ex, st, args[0])

    def finder(reverse):
        def f(ex, st, args, callee, ty):
            s, t = sstr_of(ex, st, args[0]), sstr_of(ex, st, args[1])
            n, k = len(s.chars), len(t.chars)
            order = range(n - k, -1, -1) if reverse else range(0, n - k + 1)
            for i in order:
                hit = chars_eq(s.chars[i:i + k], t.chars) if k else B(True)
                if ex.decide(st, hit):
                    return opt_some(ex, bv_sum([utf8_len(c) for c in s.chars[:i]]))
            return opt_none(ex)
        return f

    def stripper(suffix):
        def f(ex, st, args, callee, ty):
            s, t = sstr_of(ex, st, args[0]), sstr_of(ex, st, args[1])
            n, k = len(s.chars), len(t.chars)
            if k > n:
                return opt_none(ex)
            part = s.chars[n - k:] if suffix else s.chars[:k]
            if ex.decide(st, chars_eq(part, t.chars) if k else B(True)):
                return opt_some(ex, SStr(s.chars[:n - k] if suffix else s.chars[k:]))
            return opt_none(ex)
        return f

    def splitter(reverse):
        def f(ex, st, args, callee, ty):
            s, t = sstr_of(ex, st, args[0]), sstr_of(ex, st, args[1])
            n, k = len(s.chars), len(t.chars)
            order = range(n - k, -1, -1) if reverse else range(0, n - k + 1)
            for i in order:
                if ex.decide(st, chars_eq(s.chars[i:i + k], t.chars) if k else B(True)):
                    return opt_some(ex, Adt("(tuple)", None, None, [BoxRef(SStr(s.chars[:i])), BoxRef(SStr(s.chars[i + k:]))]))
            return opt_none(ex)
        return f

    def m_split_at(ex, st, args, callee, ty):
        s = sstr_of(ex, st, args[0])
        k = boundary(ex, st, s, args[1], "str::split_at")
        return Adt("(tuple)", None, None, [BoxRef(SStr(s.chars[:k])), BoxRef(SStr(s.chars[k:]))])

    def trimmer(front, back):
        def f(ex, st, args, callee, ty):
            s, t = sstr_of(ex, st, args[0]), sstr_of(ex, st, args[1])
            cs, k = list(s.chars), len(t.chars)
            if k == 0:
                return BoxRef(SStr(cs))
            while front and len(cs) >= k and ex.decide(st, chars_eq(cs[:k], t.chars)):
                cs = cs[k:]
            while back and len(cs) >= k and ex.decide(st, chars_eq(cs[len(cs) - k:], t.chars)):
                cs = cs[:len(cs) - k]
            return BoxRef(SStr(cs))
        return f

    def m_matches(ex, st, args, callee, ty):
        """non-overlapping occurrences of a pattern, as an iterator of matched slices"""
        s, t = sstr_of(ex, st, args[0]), sstr_of(ex, st, args[1])
        n, k = len(s.chars), len(t.chars)
        out, i = [], 0
        if k == 0:
            raise Unsupported("str::matches with an empty pattern")
        while i + k <= n:
            if ex.decide(st, chars_eq(s.chars[i:i + k], t.chars)):
                out.append(BoxRef(SStr(s.chars[i:i + k])))
                i += k
            else:
                i += 1
        return VecM(out)

    def m_to_lowercase(ex, st, args, callee, ty):
        """ASCII: arithmetic.  Non-ASCII: only when the path condition leaves the char a handful of concrete values (a bounded
        alphabet); each value is lower-cased with the Unicode mapping (Python's str.lower == Rust's char::to_lowercase for
        single chars without context rules).  Anything else is outside the stated bound."""
        s = sstr_of(ex, st, args[0])
        out = []
        for c in s.chars:
            if ex.decide(st, bv_bin("Lt", c, BV(32, False, 0x80))):
                out.append(ascii_lower(c))
                continue
            val = None
            if c.concrete:
                val = c.v
            else:
                cands, extra = [], ["(bvuge %s #x00000080)" % c.smt()]
                while len(cands) <= 6:
                    r, model = ex.solver.check(st.pc + extra, want_model=[c.smt()])
                    if r != "sat":
                        break
                    from .smt import parse_smt_int
                    v = parse_smt_int(model[c.smt()])
                    cands.append(v)
                    extra.append("(not (= %s (_ bv%d 32)))" % (c.smt(), v))
                if len(cands) > 6:
                    raise Unsupported("to_lowercase on a non-ASCII char with an unbounded range (outside the stated bound)")
                for v in cands:
                    if ex.decide(st, bv_bin("Eq", c, BV(32, False, v))):
                        val = v
                        break
            if val is None:
                raise Unsupported("to_lowercase on a non-ASCII char (outside the stated bound)")
            low = chr(val).lower()
            if len(low) != 1 or chr(val) == "\u03a3":
                raise Unsupported("to_lowercase with a multi-char or context dependent mapping (U+%04X)" % val)
            out.append(BV(32, False, ord(low)))
        return SStr(out)

    def m_string_eq(ex, st, args, callee, ty):
        s, t = sstr_of(ex, st, args[0]), sstr_of(ex, st, args[1])
        if len(s.chars) != len(t.chars):
            return B(False)
        return chars_eq(s.chars, t.chars)

    def m_deref(ex, st, args, callee, ty):
        return _last_ref(ex, st, args[0]) if isinstance(args[0], (Ref, BoxRef)) else BoxRef(args[0])

    def m_string_ne(ex, st, args, callee, ty):
        return b_not(m_string_eq(ex, st, args, callee, ty))

    def m_string_push(ex, st, args, callee, ty):
        dst = args[0]
        cur = sstr_of(ex, st, dst)
        new = SStr(list(cur.chars) + [args[1]])
        if isinstance(dst, Ref):
            ex._write(st, dst.depth, dst.local, dst.proj, new)
        elif isinstance(dst, BoxRef):
            dst.obj = new
        else:
            raise Unsupported("String::push through %r" % (dst,))
        return UNIT

    return [
        (rx(r"^core::str::<impl str>::chars$"), m_chars),
        (rx(r"^<Chars<'_> as Iterator>::count$"), m_count),
        (rx(r"^core::str::<impl str>::len$"), m_len),
        (rx(r"^String::len$"), m_len),
        (rx(r"^core::str::<impl str>::is_empty$"), m_is_empty),
        (rx(r"^String::is_empty$"), m_is_empty),
        (rx(r"^<T as Into<String>>::into$"), m_into_string),
        (rx(r"^<.* as AsRef<str>>::as_ref$"), m_into_string),
        (rx(r"^(?:core::)?str::<impl str>::ends_with::<(&String|&str|char|&&str)>$"), m_ends_with),
        (rx(r"^(?:core::)?str::<impl str>::starts_with::<(&String|&str|char|&&str)>$"), m_starts_with),
        (rx(r"^(?:core::)?str::<impl str>::contains::<(&String|&str|char|&&str)>$"), m_contains),
        (rx(r"^(?:core::)?str::<impl str>::rfind::<(&String|&str|char|&&str)>$"), finder(True)),
        (rx(r"^(?:core::)?str::<impl str>::find::<(&String|&str|char|&&str)>$"), finder(False)),
        (rx(r"^(?:core::)?str::<impl str>::strip_suffix::<(&String|&str|char|&&str)>$"), stripper(True)),
        (rx(r"^(?:core::)?str::<impl str>::strip_prefix::<(&String|&str|char|&&str)>$"), stripper(False)),
        (rx(r"^(?:core::)?str::<impl str>::rsplit_once::<(&String|&str|char|&&str)>$"), splitter(True)),
        (rx(r"^(?:core::)?str::<impl str>::split_once::<(&String|&str|char|&&str)>$"), splitter(False)),
        (rx(r"^(?:core::)?str::<impl str>::split_at$"), m_split_at),
        (rx(r"^(?:core::)?str::<impl str>::trim_start_matches::<(&String|&str|char|&&str)>$"), trimmer(True, False)),
        (rx(r"^(?:core::)?str::<impl str>::trim_end_matches::<(&String|&str|char|&&str)>$"), trimmer(False, True)),
        (rx(r"^(?:core::)?str::<impl str>::trim_matches::<(char)>$"), trimmer(True, True)),
        (rx(r"^(?:core::)?str::<impl str>::matches::<(&String|&str|char|&&str)>$"), m_matches),
        (rx(r"^<(?:std::str::)?Matches<'_, .*> as Iterator>::count$"), m_count),
        (rx(r"^<(str|String) as Index<RangeTo<usize>>>::index$"), m_index_to),
        (rx(r"^<(str|String) as Index<((?:std::ops::)?)?RangeFrom<usize>>>::index$"), m_index_from),
        (rx(r"^<(str|String) as Index<((?:std::ops::)?)?Range<usize>>>::index$"), m_index_range),
        (rx(r"^<(str|String) as ToOwned>::to_owned$"), m_to_owned),
        (rx(r"^<str as ToString>::to_string$"), m_to_owned),
        (rx(r"^<String as From<&str>>::from$"), m_to_owned),
        (rx(r"^<String as Clone>::clone$"), m_to_owned),
        (rx(r"^(core::)?str::<impl str>::to_lowercase$"), m_to_lowercase),
        (rx(r"^<(String|str|&str|&String) as PartialEq(<(&str|str|String|&String)>)?>::eq$"), m_string_eq),
        (rx(r"^<(String|str|&str|&String) as PartialEq(<(&str|str|String|&String)>)?>::ne$"), m_string_ne),
        (rx(r"^<String as Deref>::deref$"), m_deref),
        (rx(r"^core::fmt::rt::Argument::<'_>::new_display::<.*>$"), m_new_display),
        (rx(r"^core::fmt::rt::Argument::<'_>::new_debug::<&*(?:std::path::)?(Path|PathBuf|String|str)>$"), m_new_debug),
        (rx(r"^(?:std|core)::(?:rt|panicking)::panic_fmt$"), m_panic_fmt),
        (rx(r"^core::fmt::rt::Argument::<'_>::new_(debug|display)::<&*(u8|u16|u32|u64|usize|i32|i64|isize)>$"),
         lambda ex, st, args, callee, ty: Adt("fmt::Argument", None, "int", [SStr([BV(32, False, ord(c)) for c in "<number>"])])),
        (rx(r"^<(?:errors::)?RvError as ToString>::to_string$"), lambda ex, st, args, callee, ty: SStr([BV(32, False, ord(c)) for c in "<error text>"])),
        (rx(r"^Arguments::<'_>::new::<.*>$"), m_arguments_new),
        (rx(r"^(?:std|alloc)::fmt::format$"), m_format),
        (rx(r"^must_use::<String>$"), m_identity1),
        (rx(r"^Path::display$"), m_display),
        (rx(r"^String::(as_str|as_mut_str)$"), m_deref),
        (rx(r"^<String as (AsRef<str>|Borrow<str>)>::(as_ref|borrow)$"), m_deref),
        (rx(r"^<&?str as ToString>::to_string$"), m_to_owned),
        (rx(r"^String::new$"), lambda ex, st, args, callee, ty: SStr([])),
        (rx(r"^String::push$"), m_string_push),
    ]


# ================================================================================================
# Option / Result combinators and lazy iterator adapters (closures run as real MIR via CallBack)
# ================================================================================================
from .engine import CallBack, Identity  # noqa: E402


class WrapCont:
    """wraps the callback's result into an enum variant: Some(x) / Ok(x) / Err(x)"""

    def __init__(self, ty, variant, vname):
        self.ty, self.variant, self.vname = ty, variant, vname

    def resume(self, ex, st, v):
        return Adt(self.ty, self.variant, self.vname, [v])


class FilterCont:
    def __init__(self, opt):
        self.opt = opt

    def resume(self, ex, st, v):
        return self.opt if ex.decide(st, v) else opt_none(ex)


class LazyIter:
    """src: list of pending items; stages: [('map'|'filter'|..., fnvalue)]; `tail` is a chained iterator"""

    def __init__(self, items, stages, tail=None, source=None):
        self.items, self.stages, self.tail = list(items), list(stages), tail
        self.source = source  # the by-ref iterator the items were taken from (a full drain consumes it)


FINISHERS = {}  # kind -> function(ex, st, cont, out, rest): module-level (no captured state)


class DrainCont:
    """Pulls items through the stages one callback at a time; FINISHERS[kind] builds the result."""

    def __init__(self, lazy, kind, limit=None, target=None):
        self.pending = list(lazy.items)
        self.stages = lazy.stages
        self.tail = lazy.tail
        self.source = getattr(lazy, "source", None)
        self.out = []
        self.kind = kind
        self.limit = limit
        self.target = target
        self.cur = None
        self.stage_i = 0

    def finish(self, ex, st, out, rest):
        if self.source is not None and self.limit is None and hasattr(self.source, "j"):
            self.source.i = self.source.j  # drained through `&mut`/by_ref: the underlying iterator is exhausted
        return FINISHERS[self.kind](ex, st, self, out, rest)

    def start(self, ex, st):
        return self._advance(ex, st)

    def _advance(self, ex, st):
        while True:
            if self.cur is None:
                if not self.pending and self.tail is not None and not (self.limit is not None and len(self.out) >= self.limit):
                    t = self.tail
                    self.pending, self.stages, self.tail = list(t.items), t.stages, t.tail
                    continue
                if not self.pending or (self.limit is not None and len(self.out) >= self.limit):
                    return self.finish(ex, st, self.out, self.pending)
                self.cur = self.pending.pop(0)
                self.stage_i = 0
            if self.stage_i >= len(self.stages):
                self.out.append(self.cur)
                self.cur = None
                continue
            kind, f = self.stages[self.stage_i]
            if kind == "pass":
                self.stage_i += 1
                continue
            arg = self.cur if kind == "map" else BoxRef(self.cur)
            return CallBack(f, [arg], self)

    def resume(self, ex, st, v):
        kind, f = self.stages[self.stage_i]
        if kind == "map":
            self.cur = v
            self.stage_i += 1
        elif kind == "filter":
            if ex.decide(st, v):
                self.stage_i += 1
            else:
                self.cur = None
        elif kind == "skip_while":
            if ex.decide(st, v):
                self.cur = None  # still skipping
            else:
                # the predicate is never consulted again: drop the stage for the remaining items
                self.stages = self.stages[:self.stage_i] + [("pass", None)] + self.stages[self.stage_i + 1:]
                self.stage_i += 1
        elif kind == "take_while":
            if ex.decide(st, v):
                self.stage_i += 1
            else:
                # std's TakeWhile consumes the first failing item; what follows stays in the source
                self.cur = None
                self.rest = list(self.pending)
                self.pending = []
        return self._advance(ex, st)


def _fin_vec(ex, st, cont, out, rest):
    return VecM(out)


def _fin_vec_extend(ex, st, cont, out, rest):
    cont.target.items.extend(out)
    return UNIT


def _fin_count(ex, st, cont, out, rest):
    return BV(64, False, len(out))


def _fin_next(ex, st, cont, out, rest):
    cont.target.items = rest
    return opt_some(ex, out[0]) if out else opt_none(ex)


def _fin_pathbuf_comp(ex, st, cont, out, rest):
    buf = PathBufM([])
    for c in out:
        pathbuf_push_comp(ex, st, buf, _obj(ex, st, c))
    return buf


def _fin_string(ex, st, cont, out, rest):
    return SStr(out)


FINISHERS.update(vec_extend=_fin_vec_extend, vec=_fin_vec, count=_fin_count, next=_fin_next, string=_fin_string, pathbuf_comp=_fin_pathbuf_comp)


def _items_of(ex, st, it):
    it = _obj(ex, st, it)
    if isinstance(it, LazyIter):
        return it
    if isinstance(it, SplitM):
        return LazyIter(it.segs, [])
    if isinstance(it, ComponentsM):
        return LazyIter(it.comps, [])
    if hasattr(it, "remaining") and hasattr(it, "toks"):
        return LazyIter([t[0] for t in it.remaining()], [], source=it)
    if isinstance(it, VecM):
        return LazyIter(it.items, [])
    raise Unsupported("iterator adapter over %r" % (it,))


def make_int_models():
    from .values import bv_bin, bv_cast

    def m_unsigned_abs(ex, st, args, callee, ty):
        a = args[0]
        if a.concrete:
            return BV(a.w, False, abs(a.sint()))
        t = a.smt()
        return BV(a.w, False, "(ite (bvslt %s (_ bv0 %d)) (bvneg %s) %s)" % (t, a.w, t, t))

    def m_abs(ex, st, args, callee, ty):
        a = args[0]
        mn = BV(a.w, True, 1 << (a.w - 1))
        if ex.decide(st, bv_bin("Eq", a, mn)):
            raise Panic("attempt to negate with overflow (abs of MIN)")
        r = m_unsigned_abs(ex, st, args, callee, ty)
        return BV(a.w, True, r.v)

    def wrap(op):
        def f(ex, st, args, callee, ty):
            return bv_bin(op, args[0], args[1])
        return f

    def m_sat_sub(ex, st, args, callee, ty):
        a, b = args
        if a.signed:
            raise Unsupported("signed saturating_sub")
        lt = bv_bin("Lt", a, b)
        if lt.concrete:
            return BV(a.w, False, 0) if lt.v else bv_bin("Sub", a, b)
        return BV(a.w, False, "(ite %s (_ bv0 %d) %s)" % (lt.smt(), a.w, bv_bin("Sub", a, b).smt()))

    def minmax(is_min):
        def f(ex, st, args, callee, ty):
            a, b = args
            c = bv_bin("Le" if is_min else "Ge", a, b)
            if c.concrete:
                return a if c.v else b
            return BV(a.w, a.signed, "(ite %s %s %s)" % (c.smt(), a.smt(), b.smt()))
        return f

    def m_checked_add_signed(ex, st, args, callee, ty):
        a, b = args  # a: unsigned, b: signed of the same width
        w = a.w
        if a.concrete and b.concrete:
            r = a.v + b.sint()
            if 0 <= r < (1 << w):
                return opt_some(ex, BV(w, False, r))
            return opt_none(ex)
        wa = "((_ zero_extend 2) %s)" % a.smt()
        wb = "((_ sign_extend 2) %s)" % BV(w, True, b.v).smt()
        s_ = "(bvadd %s %s)" % (wa, wb)
        ok = B("(= ((_ extract %d %d) %s) #b00)" % (w + 1, w, s_))
        if ex.decide(st, ok):
            return opt_some(ex, BV(w, False, "(bvadd %s %s)" % (a.smt(), b.smt())))
        return opt_none(ex)

    T = r"(?:core::)?num::<impl [iu](?:8|16|32|64|128|size)>::"
    return [
        (rx(r"^%sunsigned_abs$" % T), m_unsigned_abs),
        (rx(r"^%sabs$" % T), m_abs),
        (rx(r"^%swrapping_add$" % T), wrap("Add")),
        (rx(r"^%swrapping_sub$" % T), wrap("Sub")),
        (rx(r"^%swrapping_mul$" % T), wrap("Mul")),
        (rx(r"^%ssaturating_sub$" % T), m_sat_sub),
        (rx(r"^%schecked_add_signed$" % T), m_checked_add_signed),
        (rx(r"^(?:std::)?cmp::min::<[iu]\w+>$"), minmax(True)),
        (rx(r"^(?:std::)?cmp::max::<[iu]\w+>$"), minmax(False)),
        (rx(r"^<[iu]\w+ as Ord>::min$"), minmax(True)),
        (rx(r"^<[iu]\w+ as Ord>::max$"), minmax(False)),
    ]


def make_combinators():
    def is_variant(ty, idx):
        def f(ex, st, args, callee, t):
            v = _obj(ex, st, args[0])
            return B(v.variant == idx)
        return f

    def m_result_ok(ex, st, args, callee, ty):
        r = args[0]
        return opt_some(ex, r.fields[0]) if r.variant == 0 else opt_none(ex)

    def m_result_err(ex, st, args, callee, ty):
        r = args[0]
        return opt_some(ex, r.fields[0]) if r.variant == 1 else opt_none(ex)

    def m_opt_and_then(ex, st, args, callee, ty):
        o = args[0]
        if o.variant == 0:
            return opt_none(ex)
        return CallBack(args[1], [o.fields[0]], Identity())

    def m_opt_map(ex, st, args, callee, ty):
        o = args[0]
        if o.variant == 0:
            return opt_none(ex)
        return CallBack(args[1], [o.fields[0]], WrapCont("Option", 1, "Some"))

    def m_opt_filter(ex, st, args, callee, ty):
        o = args[0]
        if o.variant == 0:
            return opt_none(ex)
        return CallBack(args[1], [BoxRef(o.fields[0])], FilterCont(o))

    def m_unwrap_or(ex, st, args, callee, ty):
        o = args[0]
        if (o.ty == "Option" and o.variant == 1) or (o.ty == "Result" and o.variant == 0):
            return o.fields[0]
        return args[1]

    def m_unwrap_or_else(ex, st, args, callee, ty):
        o = args[0]
        if o.ty == "Option":
            if o.variant == 1:
                return o.fields[0]
            return CallBack(args[1], [], Identity())
        if o.variant == 0:
            return o.fields[0]
        return CallBack(args[1], [o.fields[0]], Identity())

    def m_ok_or(ex, st, args, callee, ty):
        o = args[0]
        if o.variant == 1:
            return Adt("Result", 0, "Ok", [o.fields[0]])
        return Adt("Result", 1, "Err", [args[1]])

    class OkOrElseCont:
        def resume(self, ex, st, v):
            return Adt("Result", 1, "Err", [v])

    def m_ok_or_else(ex, st, args, callee, ty):
        o = args[0]
        if o.variant == 1:
            return Adt("Result", 0, "Ok", [o.fields[0]])
        return CallBack(args[1], [], OkOrElseCont())

    def m_error_ctor(ex, st, args, callee, ty):
        if callee.endswith("::into") and args and isinstance(args[0], Adt) and args[0].ty == "Error":
            return args[0]  # PathError::kind(..).into(): keep the kind
        if callee.endswith("::into") and args and isinstance(args[0], Adt) and not args[0].fields and args[0].variant is None and args[0].ty[:1].isupper():
            return Adt("Error", None, args[0].ty.lower(), [])  # unit variant such as PathError::Empty
        parts = [x for x in strip_generics(callee).split("::") if x]
        return Adt("Error", None, parts[-1] if parts else "error", [])

    def m_res_map(ex, st, args, callee, ty):
        r = args[0]
        if r.variant == 1:
            return r
        return CallBack(args[1], [r.fields[0]], WrapCont("Result", 0, "Ok"))

    def m_res_map_err(ex, st, args, callee, ty):
        r = args[0]
        if r.variant == 0:
            return r
        return CallBack(args[1], [r.fields[0]], WrapCont("Result", 1, "Err"))

    def m_res_and_then(ex, st, args, callee, ty):
        r = args[0]
        if r.variant == 1:
            return r
        return CallBack(args[1], [r.fields[0]], Identity())

    def m_unwrap(ex, st, args, callee, ty):
        o = args[0]
        if (o.ty == "Option" and o.variant == 0) or (o.ty == "Result" and o.variant == 1):
            raise Panic("called `unwrap()` on a `None`/`Err` value")
        return o.fields[0]

    def m_iter_map(ex, st, args, callee, ty):
        l = _items_of(ex, st, args[0])
        return LazyIter(l.items, l.stages + [("map", args[1])], source=l.source)

    def m_iter_filter(ex, st, args, callee, ty):
        l = _items_of(ex, st, args[0])
        return LazyIter(l.items, l.stages + [("filter", args[1])], source=l.source)

    def stage(kind):
        def f(ex, st, args, callee, ty):
            l = _items_of(ex, st, args[0])
            return LazyIter(l.items, l.stages + [(kind, args[1])], source=l.source)
        return f

    def need_plain(l, what):
        if l.stages or l.tail is not None:
            raise Unsupported("%s after a pending map/filter stage" % what)
        return l

    def count_of(ex, st, n, upto):
        """concrete value of a (possibly symbolic) count, saturated at `upto`"""
        if n.concrete:
            return min(n.v, upto)
        from .values import bv_bin
        for k in range(upto):
            if ex.decide(st, bv_bin("Eq", n, BV(n.w, n.signed, k))):
                return k
        return upto

    def m_take(ex, st, args, callee, ty):
        l = need_plain(_items_of(ex, st, args[0]), "take")
        return LazyIter(l.items[:count_of(ex, st, args[1], len(l.items))], [])

    def m_skip(ex, st, args, callee, ty):
        l = need_plain(_items_of(ex, st, args[0]), "skip")
        return LazyIter(l.items[count_of(ex, st, args[1], len(l.items)):], [], source=l.source)

    def m_zip(ex, st, args, callee, ty):
        a = need_plain(_items_of(ex, st, args[0]), "zip")
        b = need_plain(_items_of(ex, st, args[1]), "zip")
        return LazyIter([Adt("(tuple)", None, None, [x, y]) for x, y in zip(a.items, b.items)], [])

    def m_chain(ex, st, args, callee, ty):
        a = _items_of(ex, st, args[0])
        b = _items_of(ex, st, args[1])
        if a.tail is not None:
            raise Unsupported("chain of a chain")
        return LazyIter(a.items, a.stages, tail=b)

    def m_enumerate(ex, st, args, callee, ty):
        l = need_plain(_items_of(ex, st, args[0]), "enumerate")
        return LazyIter([Adt("(tuple)", None, None, [BV(64, False, i), x]) for i, x in enumerate(l.items)], [])

    def m_rev_iter(ex, st, args, callee, ty):
        l = need_plain(_items_of(ex, st, args[0]), "rev")
        return LazyIter(list(reversed(l.items)), [])

    def m_map_or(ex, st, args, callee, ty):
        o = args[0]
        some = (o.ty == "Option" and o.variant == 1) or (o.ty == "Result" and o.variant == 0)
        if not some:
            return args[1]
        return CallBack(args[2], [o.fields[0]], Identity())

    def m_as_deref(ex, st, args, callee, ty):
        o = args[0]
        if isinstance(o, (Ref, BoxRef)):
            o = _obj(ex, st, o)
        if o.variant == 0:
            return opt_none(ex)
        return opt_some(ex, o.fields[0])

    def collect_into(kind):
        def f(ex, st, args, callee, ty):
            return DrainCont(_items_of(ex, st, args[0]), kind).start(ex, st)
        return f

    def m_vec_extend_lazy(ex, st, args, callee, ty):
        return DrainCont(_items_of(ex, st, args[1]), "vec_extend", target=_obj(ex, st, args[0])).start(ex, st)

    def m_lazy_next(ex, st, args, callee, ty):
        l = _obj(ex, st, args[0])
        return DrainCont(l, "next", limit=1, target=l).start(ex, st)

    def m_into_iter_identity(ex, st, args, callee, ty):
        return args[0]

    return make_int_models() + [
        (rx(r"^Result::<.*>::ok$"), m_result_ok),
        (rx(r"^Result::<.*>::err$"), m_result_err),
        (rx(r"^Result::<.*>::is_ok$"), is_variant("Result", 0)),
        (rx(r"^Result::<.*>::is_err$"), is_variant("Result", 1)),
        (rx(r"^Option::<.*>::is_some$"), is_variant("Option", 1)),
        (rx(r"^Option::<.*>::is_none$"), is_variant("Option", 0)),
        (rx(r"^Option::<.*>::and_then::<.*>$"), m_opt_and_then),
        (rx(r"^Option::<.*>::map::<.*>$"), m_opt_map),
        (rx(r"^Option::<.*>::filter::<.*>$"), m_opt_filter),
        (rx(r"^(Option|Result)::<.*>::unwrap_or$"), m_unwrap_or),
        (rx(r"^(Option|Result)::<.*>::unwrap_or_else::<.*>$"), m_unwrap_or_else),
        (rx(r"^Option::<.*>::ok_or::<.*>$"), m_ok_or),
        (rx(r"^Option::<.*>::ok_or_else::<.*>$"), m_ok_or_else),
        (rx(r"^(?:errors::\w+::)?(Path|Vfs|File|Iter|String|User|Core)Error::\w+(::<.*>)?$"), m_error_ctor),
        (rx(r"^<(?:errors::\w+::)?(Path|Vfs|File|Iter|String|User|Core)Error as Into<RvError>>::into$"), m_error_ctor),
        (rx(r"^Result::<.*>::map::<.*>$"), m_res_map),
        (rx(r"^Result::<.*>::map_err::<.*>$"), m_res_map_err),
        (rx(r"^Result::<.*>::and_then::<.*>$"), m_res_and_then),
        (rx(r"^(Option|Result)::<.*>::(unwrap|expect)$"), m_unwrap),
        (rx(r"^<.* as Iterator>::map::<.*>$"), m_iter_map),
        (rx(r"^<.* as Iterator>::filter::<.*>$"), m_iter_filter),
        (rx(r"^<.* as Iterator>::take$"), m_take),
        (rx(r"^<.* as Iterator>::skip$"), m_skip),
        (rx(r"^<.* as Iterator>::zip::<.*>$"), m_zip),
        (rx(r"^<.* as Iterator>::enumerate$"), m_enumerate),
        (rx(r"^<.* as Iterator>::chain::<.*>$"), m_chain),
        (rx(r"^(Option|Result)::<.*>::map_or::<.*>$"), m_map_or),
        (rx(r"^Option::<.*>::as_deref$"), m_as_deref),
        (rx(r"^Option::<.*>::as_ref$"), m_as_deref),
        (rx(r"^<.* as Iterator>::skip_while::<.*>$"), stage("skip_while")),
        (rx(r"^<Vec<.*> as Extend<.*>>::extend::<(?:std::iter::)?(Map|Filter|SkipWhile|TakeWhile|Take|Skip|Chain)<.*>>$"), m_vec_extend_lazy),
        (rx(r"^<.* as Iterator>::take_while::<.*>$"), stage("take_while")),
        (rx(r"^<(?:std::iter::)?(Map|Filter|SkipWhile|TakeWhile|Take|Skip|Zip|Enumerate|Chain)<.*> as Iterator>::collect::<Vec<.*>>$"), collect_into("vec")),
        (rx(r"^<(?:std::iter::)?(Map|Filter|SkipWhile|TakeWhile|Take|Skip|Zip|Enumerate|Chain)<.*> as Iterator>::count$"), collect_into("count")),
        (rx(r"^<(?:std::iter::)?(Map|Filter|SkipWhile|TakeWhile|Take|Skip|Zip|Enumerate|Chain|Rev)<.*> as Iterator>::collect::<String>$"), collect_into("string")),
        (rx(r"^<Chars<'_> as Iterator>::collect::<String>$"), collect_into("string")),
        (rx(r"^<(?:std::iter::)?(Map|Filter|SkipWhile|TakeWhile|Take|Skip|Zip|Enumerate|Chain)<.*> as Iterator>::next$"), m_lazy_next),
        (rx(r"^<(?:std::iter::)?(Map|Filter|SkipWhile|TakeWhile|Take|Skip|Zip|Enumerate|Chain)<.*> as IntoIterator>::into_iter$"), m_into_iter_identity),
    ]


# ================================================================================================
# Text environment + Peekable<Chars> (for sys::expand)
# ================================================================================================
class PeekableM(VecM):
    pass


class TextEnv:
    """The process environment as uninterpreted functions of the variable NAME (a char sequence):
    is it set, and (when set) its value, a text of `vlen` symbolic chars.  The same name always gives
    the same answer; different names are unrelated.  `vlen` is a per-job bound."""

    def __init__(self, solver, vlen):
        self.solver, self.vlen = solver, vlen
        self.decl = set()

    def lookup(self, ex, st, name_chars):
        L = len(name_chars)
        fs, fv = "envset_%d" % L, "envval_%d" % L
        if L not in self.decl:
            self.decl.add(L)
            if L == 0:
                self.solver.declare(fs, "Bool")
                for i in range(self.vlen):
                    self.solver.declare("%s_%d" % (fv, i), "(_ BitVec 32)")
            else:
                self.solver.declare_fun(fs, ["(_ BitVec 32)"] * L, "Bool")
                for i in range(self.vlen):
                    self.solver.declare_fun("%s_%d" % (fv, i), ["(_ BitVec 32)"] * L, "(_ BitVec 32)")
        argt = " ".join(c.smt() for c in name_chars)
        app = (lambda f: "(%s %s)" % (f, argt)) if L else (lambda f: f)
        is_set = B(app(fs))
        val = [BV(32, False, app("%s_%d" % (fv, i))) for i in range(self.vlen)]
        return is_set, val

    def value_constraints(self, val):
        """values are valid text: Unicode scalars, and (unix) no NUL"""
        out = []
        for c in val:
            t = c.smt()
            out.append("(and (bvule %s #x0010ffff) (not (= %s #x00000000)) (not (and (bvuge %s #x0000d800) (bvule %s #x0000dfff))))" % (t, t, t, t))
        return out


def make_expand_models(tenv):
    from .values import bv_bin

    def m_var(ex, st, args, callee, ty):
        name = sstr_of(ex, st, args[0])
        is_set, val = tenv.lookup(ex, st, name.chars)
        if ex.decide(st, is_set):
            for c in tenv.value_constraints(val):
                if c not in st.pc:
                    st.pc.append(c)
            return Adt("Result", 0, "Ok", [SStr(val)])
        return Adt("Result", 1, "Err", [Adt("VarError", 0, "NotPresent", [])])

    def m_peekable(ex, st, args, callee, ty):
        src = _obj(ex, st, args[0])
        return PeekableM(src.items)

    def m_peek(ex, st, args, callee, ty):
        p = _obj(ex, st, args[0])
        return opt_some(ex, BoxRef(p.items[0])) if p.items else opt_none(ex)

    def m_next(ex, st, args, callee, ty):
        p = _obj(ex, st, args[0])
        return opt_some(ex, p.items.pop(0)) if p.items else opt_none(ex)

    def m_next_if_eq(ex, st, args, callee, ty):
        p = _obj(ex, st, args[0])
        want = _obj(ex, st, args[1])
        if p.items and ex.decide(st, bv_bin("Eq", p.items[0], want)):
            return opt_some(ex, p.items.pop(0))
        return opt_none(ex)

    class NextIfCont:
        def __init__(self, target):
            self.target = target

        def resume(self, ex, st, v):
            if ex.decide(st, v):
                return opt_some(ex, self.target.items.pop(0))
            return opt_none(ex)

    def m_next_if(ex, st, args, callee, ty):
        p = _obj(ex, st, args[0])
        if not p.items:
            return opt_none(ex)
        return CallBack(args[1], [BoxRef(p.items[0])], NextIfCont(p))

    def m_by_ref(ex, st, args, callee, ty):
        return args[0]

    def m_take_while_byref(ex, st, args, callee, ty):
        src = _obj(ex, st, args[0])
        l = LazyIter(src.items, [("take_while", args[1])])
        l.source = src
        return l

    def m_collect_string_lazy(ex, st, args, callee, ty):
        l = _obj(ex, st, args[0])
        return DrainCont(l, "string_writeback", target=getattr(l, "source", None)).start(ex, st)

    def m_add_assign(ex, st, args, callee, ty):
        dst = args[0]
        cur = sstr_of(ex, st, dst)
        new = SStr(cur.chars + sstr_of(ex, st, args[1]).chars)
        if isinstance(dst, Ref):
            ex._write(st, dst.depth, dst.local, dst.proj, new)
        elif isinstance(dst, BoxRef):
            dst.obj = new
        else:
            raise Unsupported("String += through %r" % (dst,))
        return UNIT

    class CollectNextCont:
        """collect::<String>() of rivia's PeekingTakeWhile: drive its real `next` until None"""

        def __init__(self, it, nextfn):
            self.it, self.nextfn, self.out = it, nextfn, []

        def resume(self, ex, st, v):
            if v.variant == 0:
                return SStr(self.out)
            self.out.append(v.fields[0])
            return CallBack(self.nextfn, [self.it], self)

    def m_collect_peeking(ex, st, args, callee, ty):
        from .engine import FnItem
        it = BoxRef(args[0]) if not isinstance(args[0], (Ref, BoxRef)) else args[0]
        nextfn = FnItem("<PeekingTakeWhile as Iterator>::next")
        return CallBack(nextfn, [it], CollectNextCont(it, nextfn))

    return [
        (rx(r"^(?:std::env::)?var::<(&String|&str|String)>$"), m_var),
        (rx(r"^<Chars<'_> as Iterator>::peekable$"), m_peekable),
        (rx(r"^Peekable::<Chars<'_>>::peek$"), m_peek),
        (rx(r"^<Peekable<Chars<'_>> as Iterator>::next$"), m_next),
        (rx(r"^Peekable::<Chars<'_>>::next_if_eq::<char>$"), m_next_if_eq),
        (rx(r"^Peekable::<(?:Chars<'_>|I)>::next_if::<.*>$"), m_next_if),
        (rx(r"^<Peekable<Chars<'_>> as Iterator>::by_ref$"), m_by_ref),
        (rx(r"^<&mut Peekable<Chars<'_>> as Iterator>::take_while::<.*>$"), m_take_while_byref),
        (rx(r"^<TakeWhile<&mut Peekable<Chars<'_>>, .*> as Iterator>::collect::<String>$"), m_collect_string_lazy),
        (rx(r"^<(?:peekable::)?PeekingTakeWhile<'_, Chars<'_>, .*> as Iterator>::collect::<String>$"), m_collect_peeking),
        (rx(r"^<String as AddAssign<&str>>::add_assign$"), m_add_assign),
        (rx(r"^<Matches<'_, char> as Iterator>::next$"), m_next),
    ]


def _fin_string_writeback(ex, st, cont, out, rest):
    if cont.target is not None:
        cont.target.items = list(getattr(cont, "rest", rest))
    return SStr(out)


FINISHERS["string_writeback"] = _fin_string_writeback
