"""Forking symbolic executor over parsed MIR (KLEE style): concrete values are folded, symbolic
branch conditions are decided by the SMT solver under the current path condition; a condition
that can go both ways forks the state.  Unknown statements / callees raise (fail closed)."""
import copy
import re

from .parse import MirError, Place
from .values import (B, BV, I, UNIT, Adt, BoxRef, Opaque, Ref, Str, INT_TYPES, b_and, b_not, bv_bin, bv_cast, bv_not,
                     i_eq)


class Fork(Exception):
    def __init__(self, cond):
        self.cond = cond  # B (symbolic)


class Panic(Exception):
    def __init__(self, msg):
        self.msg = msg


class Yield(Exception):
    """A scheduling point (lock acquisition in a multi-threaded exploration): the job's `on_yield`
    callback receives the state paused *before* the yielding terminator and returns successor states."""

    def __init__(self, info):
        self.info = info


class Unsupported(MirError):
    pass


class Frame:
    __slots__ = ("fn", "locals", "block", "idx", "ret_place", "ret_block", "cont")

    def __init__(self, fn, ret_place=None, ret_block=None, cont=None):
        self.fn, self.locals, self.block, self.idx = fn, {}, "bb0", 0
        self.ret_place, self.ret_block, self.cont = ret_place, ret_block, cont


class Bytes:
    """A byte-string constant (e.g. the compiled template of format!)."""
    immutable = True

    def __init__(self, b):
        self.b = b

    def __repr__(self):
        return "Bytes(%r)" % (self.b,)


class FnItem:
    """A function item / closure used as a value."""

    def __init__(self, text, captures=()):
        self.text, self.captures = text, list(captures)

    @property
    def immutable(self):
        # a closure that captured values must be copied with the state it belongs to (its captures may reference the heap:
        # e.g. a cloned Memfs handle); plain function items are shared
        return not self.captures

    def get_field(self, n):
        return self.captures[n]

    def __repr__(self):
        return "FnItem(%s)" % self.text


class CallBack:
    """Returned by a model that needs rivia code (a closure / fn item) to run: the engine calls
    `fn(*args)` and passes the result to cont.resume(ex, st, result), which yields the model's final
    value or another CallBack."""

    def __init__(self, fn, args, cont):
        self.fn, self.args, self.cont = fn, args, cont


class Identity:
    def resume(self, ex, st, v):
        return v


class State:
    def __init__(self):
        self.frames = []
        self.pc = []  # list of SMT boolean terms
        self.steps = 0
        self.block_visits = {}
        self.done = False
        self.retval = None
        self.panic = None
        self.bound_hit = None
        self.meta = {}  # job specific (effect log, env ...)
        self.trace = []

    def clone(self):
        memo = {}
        n = State.__new__(State)
        n.frames = []
        for fr in self.frames:
            f2 = Frame(fr.fn, fr.ret_place, fr.ret_block, fastcopy(fr.cont, memo))
            f2.block, f2.idx = fr.block, fr.idx
            f2.locals = {k: fastcopy(v, memo) for k, v in fr.locals.items()}
            n.frames.append(f2)
        n.pc = list(self.pc)
        n.steps = self.steps
        n.block_visits = dict(self.block_visits)
        n.done, n.panic, n.bound_hit = self.done, self.panic, self.bound_hit
        n.retval = fastcopy(self.retval, memo)
        n.meta = {k: (v if k == "_facts" else fastcopy(v, memo)) for k, v in self.meta.items()}
        n.trace = list(self.trace)
        return n


_IMMUTABLE = (BV, B, I, Str, Opaque, Ref, int, str, bool, float, type(None), type(UNIT), frozenset)


def fastcopy(v, memo):
    """Copy of a value graph that shares immutable leaves and preserves aliasing of mutable objects
    (model objects, BoxRef cells).  Objects may opt out with `immutable = True`."""
    if isinstance(v, _IMMUTABLE) or getattr(v, "immutable", False):
        return v
    k = id(v)
    if k in memo:
        return memo[k]
    if isinstance(v, Adt):
        nf = [fastcopy(f, memo) for f in v.fields]
        if all(a is b for a, b in zip(nf, v.fields)):
            memo[k] = v
            return v
        r = Adt(v.ty, v.variant, v.vname, nf)
        memo[k] = r
        return r
    if isinstance(v, BoxRef):
        r = v.__class__(None)
        memo[k] = r
        r.obj = fastcopy(v.obj, memo)
        return r
    if isinstance(v, list):
        r = []
        memo[k] = r
        r.extend(fastcopy(x, memo) for x in v)
        return r
    if isinstance(v, tuple):
        return tuple(fastcopy(x, memo) for x in v)
    if isinstance(v, dict):
        r = {}
        memo[k] = r
        for a, b in v.items():
            r[a] = fastcopy(b, memo)
        return r
    if isinstance(v, set):
        return set(v)
    if hasattr(v, "__dict__"):
        r = v.__class__.__new__(v.__class__)
        memo[k] = r
        for a, b in v.__dict__.items():
            setattr(r, a, fastcopy(b, memo))
        return r
    if hasattr(v, "__slots__"):
        r = v.__class__.__new__(v.__class__)
        memo[k] = r
        for a in v.__slots__:
            setattr(r, a, fastcopy(getattr(v, a), memo))
        return r
    return copy.deepcopy(v, memo)


ENUMS_STD = {
    "Option": ["None", "Some"],
    "Result": ["Ok", "Err"],
    "ControlFlow": ["Continue", "Break"],
    "Component": ["Prefix", "RootDir", "CurDir", "ParentDir", "Normal"],
    "Ordering": ["Less", "Equal", "Greater"],
    "SeekFrom": ["Start", "End", "Current"],
    "ErrorKind": ["NotFound", "PermissionDenied", "ConnectionRefused", "ConnectionReset", "HostUnreachable", "NetworkUnreachable",
                  "ConnectionAborted", "NotConnected", "AddrInUse", "AddrNotAvailable", "NetworkDown", "BrokenPipe", "AlreadyExists",
                  "WouldBlock", "NotADirectory", "IsADirectory", "DirectoryNotEmpty", "ReadOnlyFilesystem", "FilesystemLoop",
                  "StaleNetworkFileHandle", "InvalidInput", "InvalidData", "TimedOut", "WriteZero", "StorageFull", "NotSeekable",
                  "QuotaExceeded", "FileTooLarge", "ResourceBusy", "ExecutableFileBusy", "Deadlock", "CrossesDevices", "TooManyLinks",
                  "InvalidFilename", "ArgumentListTooLong", "Interrupted", "Unsupported", "UnexpectedEof", "OutOfMemory", "InProgress",
                  "Other", "Uncategorized"],
}


def strip_generics(s):
    out, depth = [], 0
    i = 0
    while i < len(s):
        c = s[i]
        if c == "<":
            depth += 1
        elif c == ">" and not (i > 0 and s[i - 1] == "-"):
            depth -= 1
        elif depth == 0:
            out.append(c)
        i += 1
    return "".join(out)


class Executor:
    def __init__(self, mir, solver, models, inline, enums=None, allow_uf=False, max_block_visits=64, on_uf=None):
        self.mir, self.solver = mir, solver
        self.models = models  # list of (compiled regex, fn(ex, st, args, callee, dest_ty))
        self.inline = inline  # list of (compiled regex on callee text, regex to find the MIR function)
        self.enums = dict(ENUMS_STD)
        if enums:
            self.enums.update(enums)
        self.allow_uf = allow_uf
        self.on_uf = on_uf
        self.max_block_visits = max_block_visits
        self.stats = dict(paths=0, forks=0, decides=0, steps=0)
        self.calls_seen = {}
        self._model_cache = {}
        self.flip_site = None  # planted mutant: negate the comparison at the k-th distinct static site
        self._cmp_sites = []
        self.on_yield = None  # scheduler callback for multi-threaded exploration
        self.auto = None  # RiviaIndex: any callee that is rivia code runs from its MIR
        self.structs = None  # {struct name: [(field, type text)]} of rivia's sources (declaration order)
        self.drop_hook = None  # called for MIR `drop(place)` terminators: may return a (fn, args) to run

    # ---------------------------------------------------------------- solver-backed decisions
    def feasible(self, st, extra):
        return self.solver.check(st.pc + list(extra)) == "sat"

    RE_EQC = re.compile(r"^\(= (\S+) \(_ bv(\d+) (\d+)\)\)$")

    def _syntactic(self, st, c):
        """Cheap decisions from equalities with constants already on the path: returns True/False/None."""
        neg = False
        while c.startswith("(not ") and c.endswith(")"):
            c, neg = c[5:-1], not neg
        m = self.RE_EQC.match(c)
        if not m:
            return None
        t, k = m.group(1), int(m.group(2))
        facts = st.meta.get("_facts")
        if facts is None or facts[0] != len(st.pc):
            eqs, neqs = {}, {}
            for a in st.pc:
                n2 = False
                while a.startswith("(not ") and a.endswith(")"):
                    a, n2 = a[5:-1], not n2
                mm = self.RE_EQC.match(a)
                if mm:
                    if n2:
                        neqs.setdefault(mm.group(1), set()).add(int(mm.group(2)))
                    else:
                        eqs[mm.group(1)] = int(mm.group(2))
            facts = (len(st.pc), eqs, neqs)
            st.meta["_facts"] = facts
        _, eqs, neqs = facts
        r = None
        if t in eqs:
            r = eqs[t] == k
        elif k in neqs.get(t, ()):
            r = False
        if r is None:
            return None
        return (not r) if neg else r

    def decide(self, st, cond):
        """Python bool for a B under st.pc; forks when both outcomes are feasible."""
        if cond.concrete:
            return cond.v
        self.stats["decides"] += 1
        r = self._syntactic(st, cond.v)
        if r is not None:
            self.stats["syntactic"] = self.stats.get("syntactic", 0) + 1
            return r
        t = self.feasible(st, [cond.smt()])
        f = self.feasible(st, ["(not %s)" % cond.smt()])
        if t and f:
            raise Fork(cond)
        if t:
            return True
        if f:
            return False
        raise Unsupported("path condition became unsatisfiable")

    def valid(self, st, formula):
        """Is `formula` (B) implied by the path condition?  Returns (bool, model-or-None)."""
        if formula.concrete:
            return formula.v, None
        r = self.solver.check(st.pc + ["(not %s)" % formula.smt()])
        return r == "unsat", None

    # ---------------------------------------------------------------- places
    def frame(self, st, depth=None):
        return st.frames[-1 if depth is None else depth]

    def read_place(self, st, place, depth=None):
        depth = len(st.frames) - 1 if depth is None else depth
        return self._read(st, depth, place.local, place.proj)

    def _read(self, st, depth, local, proj):
        fr = st.frames[depth]
        if local not in fr.locals:
            ty = fr.fn.locals.get(local, "")
            if ty.startswith("{closure@"):
                fr.locals[local] = FnItem(ty)
            else:
                raise Unsupported("read of uninitialised local %s in %s" % (local, fr.fn.name))
        v = fr.locals[local]
        for k, p in enumerate(proj):
            v = self._project(st, v, p, depth)
        return v

    def _project(self, st, v, p, depth):
        if p[0] == "deref":
            return self.deref(st, v)
        if p[0] == "field":
            if isinstance(v, Adt):
                return v.fields[p[1]]
            if hasattr(v, "get_field"):
                return v.get_field(p[1])
            raise Unsupported("field projection .%d on %r" % (p[1], v))
        if p[0] == "downcast":
            if isinstance(v, Adt):
                if v.vname is None:
                    v.vname = p[1]
                elif v.vname != p[1]:
                    raise Unsupported("downcast to %s of value %r" % (p[1], v))
                return v
            if hasattr(v, "downcast"):
                return v.downcast(p[1])
            raise Unsupported("downcast on %r" % (v,))
        if p[0] == "constindex":
            return v.fields[p[1]]
        if p[0] == "index":
            idx = self._read(st, depth, p[1], ())
            if isinstance(idx, BV) and idx.concrete:
                return v.fields[idx.v]
        raise Unsupported("projection %r" % (p,))

    def deref(self, st, v):
        if isinstance(v, Ref):
            return self._read(st, v.depth, v.local, v.proj)
        if isinstance(v, BoxRef):
            return v.obj
        if getattr(v, "deref_self", False):
            return v
        raise Unsupported("deref of non-reference %r" % (v,))

    def write_place(self, st, place, val, depth=None):
        depth = len(st.frames) - 1 if depth is None else depth
        self._write(st, depth, place.local, place.proj, val)

    def _write(self, st, depth, local, proj, val):
        fr = st.frames[depth]
        for k, p in enumerate(proj):
            if p[0] == "deref":
                base = self._read(st, depth, local, proj[:k])
                rest = proj[k + 1:]
                if isinstance(base, Ref):
                    return self._write(st, base.depth, base.local, base.proj + rest, val)
                if isinstance(base, BoxRef):
                    if not rest:
                        base.obj = val
                        return
                    base.obj = self._update(base.obj, rest, val)
                    return
                if getattr(base, "deref_self", False):
                    self._update(base, rest, val)
                    return
                raise Unsupported("write through non-reference %r" % (base,))
        if not proj:
            fr.locals[local] = val
            return
        fr.locals[local] = self._update(fr.locals.get(local), proj, val)

    def _update(self, cur, proj, val):
        if not proj:
            return val
        p = proj[0]
        if p[0] == "field":
            if isinstance(cur, Adt):
                nf = list(cur.fields)
                while len(nf) <= p[1]:
                    nf.append(None)
                nf[p[1]] = self._update(nf[p[1]], proj[1:], val)
                return Adt(cur.ty, cur.variant, cur.vname, nf)
            if cur is None:
                nf = [None] * (p[1] + 1)
                nf[p[1]] = self._update(None, proj[1:], val)
                return Adt("?", None, None, nf)
            if hasattr(cur, "set_field"):
                cur.set_field(p[1], self._update(cur.get_field(p[1]), proj[1:], val))
                return cur
        if p[0] == "downcast":
            return self._update(cur, proj[1:], val)
        raise Unsupported("write projection %r on %r" % (p, cur))

    # ---------------------------------------------------------------- operands / rvalues
    def const(self, st, text, ty_hint=None):
        t = text.strip()
        if t in ("true", "false"):
            return B(t == "true")
        m = re.fullmatch(r"(-?\d+)_(\w+)", t)
        if m and m.group(2) in INT_TYPES:
            w, sg = INT_TYPES[m.group(2)]
            return BV(w, sg, int(m.group(1)))
        m = re.fullmatch(r"'(.*)'", t, re.S)
        if m:
            ch = m.group(1)
            if ch.startswith("\\"):
                esc = {"\\n": "\n", "\\t": "\t", "\\r": "\r", "\\\\": "\\", "\\'": "'", "\\0": "\0"}
                if ch in esc:
                    ch = esc[ch]
                else:
                    mu = re.fullmatch(r"\\u\{([0-9a-fA-F]+)\}", ch)
                    ch = chr(int(mu.group(1), 16)) if mu else ch
            if len(ch) == 1:
                return BV(32, False, ord(ch))
        if t.startswith('"') and t.endswith('"'):
            s = bytes(t[1:-1], "utf-8").decode("unicode_escape") if "\\" in t else t[1:-1]
            return Str(s)
        if t == "()":
            return UNIT
        if t.startswith('b"'):
            import ast
            try:
                return Bytes(ast.literal_eval(t))
            except Exception:
                raise Unsupported("byte string constant " + t)
        if t.startswith("fnitem "):
            return FnItem(t[7:])
        if t.startswith("ZeroSized: "):
            return FnItem(t[len("ZeroSized: "):])
        mm = re.fullmatch(r"(?:core::)?num::<impl ([iu](?:8|16|32|64|128|size))>::(MAX|MIN)", t)
        if mm:
            w, sg = INT_TYPES[mm.group(1)]
            if mm.group(2) == "MAX":
                return BV(w, sg, (1 << (w - 1)) - 1 if sg else (1 << w) - 1)
            return BV(w, sg, (1 << (w - 1)) if sg else 0)
        if "::promoted[" in t:
            m = re.fullmatch(r"(.*)::promoted\[(\d+)\]", t)
            base = re.escape(strip_generics(m.group(1)))
            fn = self._promoted_of_current(st, m.group(2)) or self._find_promoted(m.group(1), m.group(2))
            return self.eval_promoted(st, fn)
        # named scalar constants of the crate: `const path::NAME: ty = const LITERAL;` in the dump
        if re.fullmatch(r"[\w:]+", t) and t.split("::")[-1].isupper():
            lit = self._named_consts().get(t.split("::")[-1])
            if lit is not None:
                return self.const(st, lit, ty_hint)
        # unit struct / unit-like constants (e.g. `stdfs::Stdfs`)
        if re.fullmatch(r"[\w:]+", t):
            return Adt(t.split("::")[-1], None, None, [])
        raise Unsupported("constant " + t)

    def _named_consts(self):
        if getattr(self, "_nconsts", None) is None:
            self._nconsts = {}
            for l in self.mir.lines:
                m = re.match(r"^const ([\w:]+): [^=]+ = const (.+);$", l)
                if m:
                    self._nconsts[m.group(1).split("::")[-1]] = m.group(2)
        return self._nconsts

    def _promoted_of_current(self, st, idx):
        """promoted bodies are printed right after their owner: look between the executing function's
        header and the next `fn` header"""
        if not st.frames:
            return None
        line = st.frames[-1].fn.line
        for i, l, p in self.mir.headers:
            if i <= line:
                continue
            if not p:
                break
            if "::promoted[%s]" % idx in l:
                return self.mir.function_at(i)
        return None

    def _find_promoted(self, owner, idx):
        def norm(x):
            x = strip_generics(x)
            while "::::" in x:
                x = x.replace("::::", "::")
            return x.strip(":")
        want = norm(owner)
        hits = []
        for i, l, p in self.mir.headers:
            if not p or "::promoted[%s]" % idx not in l:
                continue
            have = norm(l[6:].split("::promoted[")[0])
            if have == want or want.endswith("::" + have) or have.endswith("::" + want):
                hits.append(i)
        if len(hits) != 1:
            raise Unsupported("promoted constant %s[%s] matched %d bodies" % (owner, idx, len(hits)))
        return self.mir.function_at(hits[0])

    def eval_promoted(self, st, fn):
        """Promoted bodies are tiny straight-line constants: `_1 = X; _0 = &_1; return`."""
        loc = {}
        for s in fn.blocks["bb0"].stmts:
            if s.rvalue.kind == "ref":
                pl = s.rvalue.args[0]
                if pl.proj:
                    raise Unsupported("promoted body " + s.text)
                loc[s.place.local] = BoxRef(loc[pl.local])
            elif s.rvalue.kind in ("aggregate", "use", "tuple", "array"):
                sub = State()
                fr = Frame(fn)
                fr.locals = loc
                sub.frames = [fr]
                loc[s.place.local] = self.eval_rvalue(sub, s.rvalue, fn.locals.get(s.place.local))
            else:
                raise Unsupported("promoted body " + s.text)
        return loc["_0"]

    def eval_operand(self, st, op, ty_hint=None):
        if op.kind == "const":
            return self.const(st, op.const, ty_hint)
        return self.read_place(st, op.place)

    def type_of_local(self, st, local):
        return self.frame(st).fn.locals.get(local, "")

    def make_aggregate(self, st, head, vals, ty_hint):
        h = strip_generics(head)
        parts = [p for p in h.split("::") if p]
        if len(parts) >= 2 and parts[-2] in self.enums and parts[-1] in self.enums[parts[-2]]:
            ty, vn = parts[-2], parts[-1]
            return self.enum_value(ty, vn, vals)
        # `Type::Variant` where the type path was trimmed to the variant only is not printed by rustc;
        # otherwise a tuple-struct / unit-struct constructor
        if len(parts) >= 1:
            return Adt(parts[-1], None, None, vals)
        raise Unsupported("aggregate " + head)

    def enum_value(self, ty, vn, vals):
        hook = getattr(self, "enum_hook", None)
        if hook:
            r = hook(ty, vn, vals)
            if r is not None:
                return r
        return Adt(ty, self.enums[ty].index(vn), vn, vals)

    def eval_rvalue(self, st, rv, ty_hint=None):
        k = rv.kind
        if k == "use":
            return self.eval_operand(st, rv.args[0], ty_hint)
        if k == "ref":
            pl = rv.args[0]
            depth = len(st.frames) - 1
            # reborrow `&(*_1)` resolves to the original reference
            if pl.proj and pl.proj[-1] == ("deref",):
                base = self._read(st, depth, pl.local, pl.proj[:-1])
                if isinstance(base, (Ref, BoxRef)):
                    return base
            # a reference that goes through a deref in the middle is re-rooted at the pointee
            for i, p in enumerate(pl.proj):
                if p == ("deref",):
                    base = self._read(st, depth, pl.local, pl.proj[:i])
                    if isinstance(base, Ref):
                        return Ref(base.depth, base.local, base.proj + pl.proj[i + 1:], rv.extra == "mut")
                    if isinstance(base, BoxRef):
                        v = base.obj
                        for q in pl.proj[i + 1:]:
                            v = self._project(st, v, q, depth)
                        return BoxRef(v)
            return Ref(depth, pl.local, pl.proj, rv.extra == "mut")
        if k == "discriminant":
            v = self.read_place(st, rv.args[0])
            if isinstance(v, Adt) and v.variant is not None:
                return BV(64, True, v.variant)
            if hasattr(v, "discriminant"):
                return v.discriminant()
            raise Unsupported("discriminant of %r" % (v,))
        if k == "binop":
            a = self.eval_operand(st, rv.args[0])
            b = self.eval_operand(st, rv.args[1])
            if isinstance(a, B) and isinstance(b, B):
                from .values import b_eq
                if rv.extra == "Eq":
                    return b_eq(a, b)
                if rv.extra == "Ne":
                    return b_not(b_eq(a, b))
                if rv.extra == "BitAnd":
                    return b_and(a, b)
                if rv.extra == "BitOr":
                    from .values import b_or
                    return b_or(a, b)
                raise Unsupported("bool binop " + rv.extra)
            if isinstance(a, I) or isinstance(b, I):
                if rv.extra in ("Eq", "Ne"):
                    e = i_eq(a if isinstance(a, I) else I(a.sint()), b if isinstance(b, I) else I(b.sint()))
                    return e if rv.extra == "Eq" else b_not(e)
                raise Unsupported("Int binop " + rv.extra)
            if not (isinstance(a, BV) and isinstance(b, BV)):
                raise Unsupported("binop %s on %r, %r" % (rv.extra, a, b))
            r = bv_bin(rv.extra, a, b)
            if self.flip_site is not None and rv.extra in ("Eq", "Ne", "Lt", "Le", "Gt", "Ge") and st.frames:
                fr = st.frames[-1]
                site = (fr.fn.line, fr.block, fr.idx)
                if site not in self._cmp_sites:
                    self._cmp_sites.append(site)
                if self._cmp_sites.index(site) == self.flip_site:
                    r = b_not(r)
            if isinstance(r, tuple):
                return Adt("(tuple)", None, None, [r[0], r[1]])
            return r
        if k == "unop":
            a = self.eval_operand(st, rv.args[0])
            if rv.extra == "Not":
                if isinstance(a, B):
                    return b_not(a)
                return bv_not(a)
            if rv.extra == "Neg":
                return bv_bin("Sub", BV(a.w, a.signed, 0), a)
            raise Unsupported("unop " + rv.extra)
        if k == "cast":
            a = self.eval_operand(st, rv.args[0])
            ty, kind = rv.extra
            if kind == "IntToInt" and isinstance(a, BV) and ty in INT_TYPES:
                w, sg = INT_TYPES[ty]
                return bv_cast(a, w, sg)
            if kind == "IntToInt" and isinstance(a, B) and ty in INT_TYPES:
                w, sg = INT_TYPES[ty]
                if a.concrete:
                    return BV(w, sg, int(a.v))
                return BV(w, sg, "(ite %s (_ bv1 %d) (_ bv0 %d))" % (a.smt(), w, w))
            if kind.startswith("PointerCoercion") or kind in ("Transmute", "PtrToPtr"):
                return a
            raise Unsupported("cast %s (%s) of %r" % (ty, kind, a))
        if k == "aggregate":
            vals = [self.eval_operand(st, a) for a in rv.args]
            return self.make_aggregate(st, rv.extra, vals, ty_hint)
        if k == "struct":
            head, names = rv.extra
            vals = [self.eval_operand(st, a) for a in rv.args]
            a = Adt(strip_generics(head).split("::")[-1], None, None, vals)
            return a
        if k == "closure":
            caps = [self.eval_operand(st, a) for a in rv.args]
            return FnItem(rv.extra[0], self._closure_captures(st, rv, caps))
        if k == "tuple":
            return Adt("(tuple)", None, None, [self.eval_operand(st, a) for a in rv.args])
        if k == "array":
            return Adt("[array]", None, None, [self.eval_operand(st, a) for a in rv.args])
        raise Unsupported("rvalue kind " + k)

    # ---------------------------------------------------------------- calls
    def start(self, fn, args):
        st = State()
        fr = Frame(fn)
        for (local, _), v in zip(fn.params, args):
            fr.locals[local] = v
        st.frames.append(fr)
        return st

    def push_call(self, st, fn, args, ret_place, ret_block):
        fr = Frame(fn, ret_place, ret_block)
        if len(fn.params) != len(args):
            raise Unsupported("arity mismatch calling " + fn.name)
        for (local, _), v in zip(fn.params, args):
            fr.locals[local] = v
        st.frames.append(fr)

    RE_FNTRAIT = re.compile(r"^<(.*) as (Fn|FnMut|FnOnce)<\((.*)\)>>::(call|call_mut|call_once)$")

    def _closure_captures(self, st, rv, printed):
        """rustc's MIR printer zips the aggregate's operands with the *variables* a closure mentions, so with
        disjoint field captures (edition 2021) it prints fewer operands than the closure has captures.  The
        closure body's debug info names every capture (`debug m__sym => ((*_1).2: String)`): rebuild the missing
        operands from the creating function's variables (`debug m => _13`) and rivia's struct field order."""
        try:
            body = self.closure_body(FnItem(rv.extra[0]))
        except Unsupported:
            return printed
        if body is None:
            return printed
        caps = {}
        for name, place in body.debug:
            m = re.match(r"^(\(\*)?\(\(?\*?_1\)?\.(\d+): ", place)
            if m:
                caps[int(m.group(2))] = (name, place)
        if len(caps) <= len(printed):
            return printed
        parent = self.frame(st).fn
        out = []
        for k in range(max(caps) + 1):
            if k not in caps:
                raise Unsupported("closure %s: capture %d has no debug name" % (rv.extra[0], k))
            name, place = caps[k]
            byref = place.startswith("(*(")
            parts = name.split("__")
            locs = [pl for dn, pl in parent.debug if dn == parts[0] and re.fullmatch(r"_\d+", pl)]
            if len(set(locs)) != 1:
                raise Unsupported("closure %s: variable %s maps to %d locals in %s" % (rv.extra[0], parts[0], len(set(locs)), parent.name))
            v = self.frame(st).locals.get(locs[0])
            if v is None:
                raise Unsupported("closure %s: captured variable %s (%s) is not initialised" % (rv.extra[0], parts[0], locs[0]))
            ty = parent.locals.get(locs[0], "")
            proj = []
            for fld in parts[1:]:
                sname = strip_generics(ty).lstrip("&").replace("mut ", "").split("::")[-1].strip()
                fields = (self.structs or {}).get(sname)
                if not fields or fld not in [f for f, _ in fields]:
                    raise Unsupported("closure %s: field %s of %s is unknown (capture %s)" % (rv.extra[0], fld, sname, name))
                idx = [f for f, _ in fields].index(fld)
                ty = fields[idx][1]
                while isinstance(v, (Ref, BoxRef)):
                    if proj:
                        raise Unsupported("closure %s: capture %s goes through a reference" % (rv.extra[0], name))
                    v = self.deref(st, v)
                    proj = None  # the variable itself is a reference: by-ref captures of its fields are not rebuilt
                v = v.get_field(idx) if hasattr(v, "get_field") else v.fields[idx]
                if proj is not None:
                    proj.append(("field", idx))
            if byref:
                if proj is None:
                    out.append(BoxRef(v))  # shared (immutable) view of the field
                else:
                    out.append(Ref(len(st.frames) - 1, locs[0], proj, False))
            else:
                out.append(v)
        return out

    def closure_body(self, fnval):
        """MIR body of a closure value, found by the source span in its type."""
        m = re.match(r"\{closure@([^}]*)\}", fnval.text)
        if not m:
            return None
        span = m.group(1)
        hits = [i for i, l, p in self.mir.headers if not p and re.search(r"\(_1: &?(mut )?\{closure@%s\}" % re.escape(span), l)]
        if len(hits) != 1:
            raise Unsupported("closure body for %s matched %d functions" % (span, len(hits)))
        return self.mir.function_at(hits[0])

    def invoke(self, st, fnval, args, dest, ret_block, cont):
        """Call a closure / fn item value with already evaluated args; cont (or None) receives the result."""
        fnval_o = fnval
        while isinstance(fnval_o, (Ref, BoxRef)):
            fnval_o = self.deref(st, fnval_o)
        if not isinstance(fnval_o, FnItem):
            if isinstance(fnval_o, Adt) and not fnval_o.fields:
                fnval_o = FnItem(fnval_o.ty)
            else:
                raise Unsupported("call of a non-function value %r" % (fnval_o,))
        body = self.closure_body(fnval_o)
        if body is not None:
            selfarg = fnval if body.params[0][1].startswith("&") and isinstance(fnval, (Ref, BoxRef)) else (
                BoxRef(fnval_o) if body.params[0][1].startswith("&") else fnval_o)
            fr = Frame(body, dest, ret_block, cont)
            if len(body.params) != len(args) + 1:
                raise Unsupported("closure arity mismatch for " + body.name)
            for (local, _), v in zip(body.params, [selfarg] + list(args)):
                fr.locals[local] = v
            st.frames.append(fr)
            return
        # a plain function item: resolve like any callee
        callee = fnval_o.text
        parts = [x for x in strip_generics(callee).split("::") if x]
        if len(parts) >= 2 and parts[-2] in self.enums and parts[-1] in self.enums[parts[-2]]:
            return self.deliver(st, self.enum_value(parts[-2], parts[-1], list(args)), dest, ret_block, cont)
        self.calls_seen[callee] = self.calls_seen.get(callee, 0) + 1
        for rxp, fn in self.models:
            if rxp.search(callee):
                val = fn(self, st, list(args), callee, "")
                return self.deliver(st, val, dest, ret_block, cont)
        for rxp, finder in self.inline:
            m = rxp.search(callee)
            if m:
                target = finder(self.mir, callee, m) if callable(finder) else self.mir.get(finder)
                fr = Frame(target, dest, ret_block, cont)
                for (local, _), v in zip(target.params, args):
                    fr.locals[local] = v
                st.frames.append(fr)
                return
        if self.auto is not None:
            target = self.auto.resolve(callee)
            if target is not None:
                fr = Frame(target, dest, ret_block, cont)
                for (local, _), v in zip(target.params, args):
                    fr.locals[local] = v
                st.frames.append(fr)
                return
        if self.allow_uf:
            return self.deliver(st, self.on_uf(self, st, callee, list(args), ""), dest, ret_block, cont)
        raise Unsupported("no model / MIR body for function value `%s`" % callee)

    def deliver(self, st, val, dest, ret_block, cont):
        """Hand a computed value to the continuation chain and finally to the destination place."""
        while True:
            if cont is not None:
                val = cont.resume(self, st, val)
                cont = None
            if isinstance(val, CallBack):
                return self.invoke(st, val.fn, val.args, dest, ret_block, val.cont)
            break
        self.write_place(st, dest, val)
        self.goto(st, ret_block)

    def do_call(self, st, term):
        dest, callee, ops, tg = term.data
        args = [self.eval_operand(st, o) for o in ops]
        self.calls_seen[callee] = self.calls_seen.get(callee, 0) + 1
        dest_ty = self.type_of_local(st, dest.local)
        if callee.startswith("<Self as ") and args:
            # a trait's default method calling another trait method: dispatch on the receiver's type
            v = args[0]
            while isinstance(v, (Ref, BoxRef)):
                v = self.deref(st, v)
            if isinstance(v, Adt):
                callee = "<%s as %s" % (v.ty, callee[len("<Self as "):])
        m = self.RE_FNTRAIT.match(callee)
        if m:
            tup = args[1]
            targs = tup.fields if isinstance(tup, Adt) else []
            return self.invoke(st, args[0], targs, dest, tg.get("return"), None)
        for rx, fn in self.models:
            if rx.search(callee):
                val = fn(self, st, args, callee, dest_ty)
                if isinstance(val, CallBack):
                    return self.invoke(st, val.fn, val.args, dest, tg.get("return"), val.cont)
                self.write_place(st, dest, val)
                self.goto(st, tg.get("return"))
                return
        for rx, finder in self.inline:
            m = rx.search(callee)
            if m:
                target = finder(self.mir, callee, m) if callable(finder) else self.mir.get(finder)
                self.push_call(st, target, args, dest, tg.get("return"))
                return
        if self.auto is not None:
            target = self.auto.resolve(callee)
            if target is not None:
                self.push_call(st, target, args, dest, tg.get("return"))
                return
        if self.allow_uf:
            val = self.on_uf(self, st, callee, args, dest_ty)
            self.write_place(st, dest, val)
            self.goto(st, tg.get("return"))
            return
        raise Unsupported("no model, no inlinable MIR body and no UF permission for callee `%s` (in %s)" % (
            callee, self.frame(st).fn.name))

    def goto(self, st, bb):
        if bb is None:
            raise Unsupported("call without return target (diverging)")
        fr = self.frame(st)
        fr.block, fr.idx = bb, 0
        key = (len(st.frames), fr.fn.line, bb)
        n = st.block_visits.get(key, 0) + 1
        st.block_visits[key] = n
        if n > self.max_block_visits:
            st.bound_hit = "%s %s visited %d times" % (fr.fn.name, bb, n)
            st.done = True

    # ---------------------------------------------------------------- stepping
    def step(self, st):
        fr = self.frame(st)
        blk = fr.fn.blocks.get(fr.block)
        if blk is None:
            raise Unsupported("missing block %s in %s" % (fr.block, fr.fn.name))
        st.steps += 1
        self.stats["steps"] += 1
        if fr.idx < len(blk.stmts):
            s = blk.stmts[fr.idx]
            val = self.eval_rvalue(st, s.rvalue, fr.fn.locals.get(s.place.local))
            self.write_place(st, s.place, val)
            fr.idx += 1
            return
        t = blk.term
        if t is None:
            raise Unsupported("block without terminator %s in %s" % (fr.block, fr.fn.name))
        if t.kind == "goto":
            self.goto(st, t.data)
        elif t.kind == "return":
            rv = fr.locals.get("_0", UNIT)
            st.frames.pop()
            if not st.frames:
                st.done, st.retval = True, rv
                return
            if fr.cont is not None:
                self.deliver(st, rv, fr.ret_place, fr.ret_block, fr.cont)
            else:
                self.write_place(st, fr.ret_place, rv)
                self.goto(st, fr.ret_block)
        elif t.kind == "switch":
            op, tg = t.data
            v = self.eval_operand(st, op)
            self.do_switch(st, v, tg)
        elif t.kind == "call":
            self.do_call(st, t)
        elif t.kind == "assert":
            cond, expected, msg, tg = t.data
            c = self.eval_operand(st, cond)
            ok = c if expected else b_not(c)
            if self.decide(st, ok):
                self.goto(st, tg["success"])
            else:
                raise Panic("MIR assert failed: " + msg)
        elif t.kind == "drop":
            place, tg = t.data
            if self.drop_hook is not None:
                todo = self.drop_hook(self, st, place)
                if todo is not None:
                    fn, args = todo
                    fr2 = Frame(fn, Place("_drop_scratch"), tg["return"])
                    for (local, _), v in zip(fn.params, args):
                        fr2.locals[local] = v
                    st.frames.append(fr2)
                    return
            self.goto(st, tg["return"])
        elif t.kind == "unreachable":
            raise Unsupported("reached `unreachable` in %s %s" % (fr.fn.name, fr.block))
        else:
            raise Unsupported("terminator " + t.kind)

    def do_switch(self, st, v, tg):
        if self.flip_site is not None and st.frames:
            fr = st.frames[-1]
            site = (fr.fn.line, fr.block, "switch")
            if site not in self._cmp_sites:
                self._cmp_sites.append(site)
            if self._cmp_sites.index(site) == self.flip_site:
                # planted mutant: take the other arm
                if isinstance(v, B):
                    v = b_not(v)
                else:
                    keys = [k for k in tg if k != "otherwise"]
                    if len(keys) >= 2:
                        tg = dict(tg)
                        tg[keys[0]], tg[keys[1]] = tg[keys[1]], tg[keys[0]]
        if isinstance(v, B):
            if self.decide(st, v):
                # any non-zero -> the `otherwise` (or the `1:`) arm
                self.goto(st, tg.get("1", tg.get("otherwise")))
            else:
                self.goto(st, tg.get("0", tg.get("otherwise")))
            return
        keys = [k for k in tg if k != "otherwise"]
        if isinstance(v, BV) and v.concrete:
            for k in keys:
                kv = int(k)
                if (kv & ((1 << v.w) - 1)) == v.v:
                    return self.goto(st, tg[k])
            return self.goto(st, tg["otherwise"])
        if isinstance(v, I) and v.concrete:
            for k in keys:
                if int(k) == v.v:
                    return self.goto(st, tg[k])
            return self.goto(st, tg["otherwise"])
        # symbolic scrutinee: decide the arms one after another (each decide may fork)
        for k in keys:
            if isinstance(v, BV):
                c = bv_bin("Eq", v, BV(v.w, v.signed, int(k)))
            else:
                c = i_eq(v, I(int(k)))
            if self.decide(st, c):
                return self.goto(st, tg[k])
        return self.goto(st, tg["otherwise"])

    # ---------------------------------------------------------------- exploration
    def explore(self, st0, on_path, max_paths=200000):
        """Depth-first exploration; on_path(st) is called for every completed path (returned,
        panicked or bound-hit) and may itself raise Fork (it is re-run on both successors)."""
        work = [st0]
        while work:
            st = work.pop()
            while True:
                if st.done:
                    snap = st  # on_path callbacks never mutate the finished state before forking
                    try:
                        more = on_path(st)
                        self.stats["paths"] += 1
                        if more:
                            work.extend(more)
                    except Fork as f:
                        self._fork(work, snap, f)
                    break
                fr = self.frame(st)
                blk = fr.fn.blocks.get(fr.block)
                at_term = blk is not None and fr.idx >= len(blk.stmts)
                # switch/assert decide before they touch the state, so the state itself is the snapshot;
                # a call into a model may have mutated objects before it forks: snapshot those
                kind = blk.term.kind if at_term else None
                need = (kind == "call" and self._is_model_call(blk.term)) or (kind == "return" and fr.cont is not None)
                snap = st.clone() if need else None
                try:
                    self.step(st)
                except Fork as f:
                    if snap is None:
                        if kind not in ("switch", "assert", "call"):
                            raise Unsupported("fork inside a plain statement: " + str(f.cond))
                        snap = st
                    self._fork(work, snap, f)
                    break
                except Yield as y:
                    if self.on_yield is None:
                        raise Unsupported("scheduling point without a scheduler")
                    work.extend(self.on_yield(snap if snap is not None else st, y))
                    break
                except Panic as p:
                    st.panic, st.done = p.msg, True
                except Unsupported as e:
                    if not getattr(e, "_stacked", False):
                        e._stacked = True
                        stack = " <- ".join("%s:%s" % (f.fn.name.split(">::")[-1][-40:], f.block) for f in reversed(st.frames[-6:]))
                        e.args = (str(e.args[0]) + " [call stack: " + stack + "]",) + e.args[1:]
                    raise
            if self.stats["paths"] > max_paths:
                raise Unsupported("path budget exceeded (%d)" % max_paths)

    def _is_model_call(self, term):
        callee = term.data[1]
        r = self._model_cache.get(callee)
        if r is None:
            r = any(rx.search(callee) for rx, _ in self.models) or not (
                any(rx.search(callee) for rx, _ in self.inline) or (self.auto is not None and self.auto.resolve(callee) is not None))
            self._model_cache[callee] = r
        return r

    def _fork(self, work, snap, f):
        self.stats["forks"] += 1
        a, b = snap, snap.clone()
        a.pc.append(f.cond.smt())
        b.pc.append("(not %s)" % f.cond.smt())
        work.append(b)
        work.append(a)


def strip_generics_keep(s):
    return strip_generics(s)
