"""Which units decide which property, at which tier, within which bounds."""

ITER_FUNCS = ["<T as core::iter::IteratorExt>::slice", "IteratorExt::drop", "IteratorExt::first",
              "IteratorExt::first_result", "IteratorExt::last_result", "IteratorExt::single", "IteratorExt::some",
              "IteratorExt::consume"]

KANI = [
    # ---- C19 / C12 -------------------------------------------------------------------------
    dict(name="c19_slice_sliceiter", file="verif_core", props=["C19", "C12"], tier="quick", weight=3,
         functions=["IteratorExt::slice (src/core/iter.rs) instantiated at Copied<slice::Iter<u8>>"],
         bounds="len 0..=8; left,right: every isize with left >= -len; unwind 11"),
    dict(name="c19_slice_cnt", file="verif_core", props=["C19", "C12"], tier="quick", weight=3,
         functions=["IteratorExt::slice instantiated at a default-nth/nth_back/count iterator (as path::Components)"],
         bounds="len 0..=8; -len <= left <= len+1; -len-1 <= right <= len+1; unwind 11"),
    dict(name="c19_slice_filter5", file="verif_core", props=["C19", "C12"], tier="thorough", weight=6, cap=1800,
         functions=["IteratorExt::slice instantiated at Filter<Copied<slice::Iter<u8>>> (inexact size_hint)"],
         bounds="underlying len 0..=5, every keep mask; |left|,|right| <= kept+1; unwind 11"),
    dict(name="c19_drop_filter5", file="verif_core", props=["C19", "C12"], tier="thorough", weight=5, cap=1800,
         functions=["IteratorExt::drop at Filter<..> (inexact size_hint)"], bounds="underlying len 0..=5, every keep mask, |n| <= kept+1; unwind 12"),
    dict(name="c19_slice_inexact_hint", file="verif_core", props=["C19", "C12"], tier="quick", weight=4,
         functions=["IteratorExt::slice at an iterator whose size_hint upper bound is inexact (slack 0..=3)"],
         bounds="len 0..=8; |left|,|right| <= len+1; slack 0..=3; unwind 14"),
    dict(name="c19_drop_inexact_hint", file="verif_core", props=["C19", "C12"], tier="quick", weight=3,
         functions=["IteratorExt::drop at an iterator with inexact size_hint"], bounds="len 0..=8; |n| <= len+1; slack 0..=3; unwind 14"),
    dict(name="c19_drop_sliceiter", file="verif_core", props=["C19", "C12"], tier="quick", weight=2,
         functions=["IteratorExt::drop at Copied<slice::Iter<u8>>"], bounds="len 0..=8; n: every isize; unwind 11"),
    dict(name="c19_drop_cnt", file="verif_core", props=["C19", "C12"], tier="quick", weight=2,
         functions=["IteratorExt::drop at default-nth iterator"], bounds="len 0..=8; |n| <= len+1; unwind 12"),
    dict(name="c19_list_helpers", file="verif_core", props=["C19", "C12"], tier="quick", weight=2,
         functions=["IteratorExt::{first,first_result,last_result,single,some,consume} at slice::Iter<u8>"],
         bounds="len 0..=8, symbolic bytes; unwind 11"),
    dict(name="c19_list_helpers_cnt", file="verif_core", props=["C19", "C12"], tier="quick", weight=2,
         functions=["IteratorExt::{first,last_result,single,some,consume} at default-method iterator"],
         bounds="len 0..=8; unwind 11"),
    dict(name="c19_option_has", file="verif_core", props=["C19", "C12"], tier="quick", weight=1,
         functions=["<Option<u32> as OptionExt>::has"], bounds="every Option<u32> x every u32"),
    dict(name="c19_take_while_p", file="verif_core", props=["C19", "C12"], tier="quick", weight=2,
         functions=["PeekableExt::take_while_p", "PeekingTakeWhile::next"],
         bounds="len 0..=6 symbolic bytes, predicate x < t for every t; unwind 9"),
    dict(name="c19_take_while_p_fold", file="verif_core", props=["C19", "C12"], tier="quick", weight=3,
         functions=["PeekingTakeWhile::fold"], bounds="len 0..=6 symbolic bytes, predicate x < t; unwind 9"),
    dict(name="c19_defer", file="verif_core", props=["C19", "C12"], tier="quick", weight=1,
         functions=["core::defer", "<Defer<T> as Drop>::drop"],
         bounds="nesting depth 1..=3, exit by fall-through or early return at every level (no unwinding: Kani models panic as abort)"),
    dict(name="c19_defer_macro", file="verif_core", props=["C19", "C12"], tier="quick", weight=1,
         functions=["defer! macro", "<Defer<T> as Drop>::drop"], bounds="two guards, early return or fall-through"),
    dict(name="c19_slice_witness", file="verif_core", props=["C19", "C12"], tier="quick", weight=2, witness=True,
         functions=[], bounds="vacuity twin"),
    dict(name="c19_defer_witness", file="verif_core", props=["C19", "C12"], tier="quick", weight=1, witness=True,
         functions=[], bounds="vacuity twin"),
    # ---- C07 / C12 -------------------------------------------------------------------------
    dict(name="c07_read_seek_k1", file="verif_file", props=["C07", "C12"], tier="quick", weight=3,
         functions=["<MemfsFile as io::Read>::read", "<MemfsFile as io::Seek>::seek", "MemfsFile::len",
                    "oracle: std::io::Cursor<Vec<u8>>"],
         bounds="file 0..=4 symbolic bytes; 1 step in {seek(Start u64|Current i64|End i64), read(buf 0..=5)}; unwind 7"),
    dict(name="c07_read_seek_k2", file="verif_file", props=["C07", "C12"], tier="quick", weight=5,
         functions=["MemfsFile read/seek/len vs io::Cursor"],
         bounds="file 0..=4 bytes; every 2-step sequence of seek/read with full-width offsets; unwind 7"),
    dict(name="c07_read_seek_k3", file="verif_file", props=["C07", "C12"], tier="thorough", weight=9,
         functions=["MemfsFile read/seek/len vs io::Cursor"],
         bounds="file 0..=4 bytes; every 3-step sequence; unwind 7", cap=3000),
    dict(name="c07_write_chunks", file="verif_file", props=["C07", "C12"], tier="quick", weight=6,
         functions=["<MemfsFile as io::Write>::write", "<MemfsFile as io::Write>::flush", "MemfsFile::sync (fs: None arm)"],
         bounds="<= 6 symbolic bytes split into 3 writes of symbolic sizes, flush after any of them; unwind 8"),
    dict(name="c07_append_chunks", file="verif_file", props=["C07", "C12"], tier="quick", weight=8,
         functions=["MemfsFile write/flush on an append handle (existing 1..=2 bytes, positioned by seek(End(0)))"],
         bounds="existing 1..=2 bytes + <= 6 new bytes in 3 chunks; unwind 8"),
    dict(name="c07_len_total", file="verif_file", props=["C07", "C12"], tier="quick", weight=1,
         functions=["MemfsFile::len"], bounds="file 0..=4 bytes, every u64 position"),
    dict(name="c07_read_seek_witness", file="verif_file", props=["C07", "C12"], tier="quick", weight=2, witness=True,
         functions=[], bounds="vacuity twin"),
    dict(name="c07_write_witness", file="verif_file", props=["C07", "C12"], tier="quick", weight=4, witness=True,
         functions=[], bounds="vacuity twin"),
]

KANI += [
    # ---- C11 integer kernels -----------------------------------------------------------------
    dict(name="c11_set_mode_keeps_type_bits", file="verif_entry", props=["C11", "C12"], tier="quick", weight=1,
         functions=["MemfsEntry::set_mode", "MemfsEntryOpts::mode"], bounds="every (dir,file,link) x every mode/uid/gid x every permission value <= 0o7777"),
    dict(name="c11_set_mode_default", file="verif_entry", props=["C11", "C12"], tier="quick", weight=1,
         functions=["MemfsEntry::set_mode(None)"], bounds="every entry kind"),
    dict(name="c11_set_owner_exact", file="verif_entry", props=["C11", "C12"], tier="quick", weight=1,
         functions=["MemfsEntry::set_owner"], bounds="every Option<u32> pair, every entry"),
    dict(name="c11_exec_readonly_agree_with_mode", file="verif_entry", props=["C11", "C12"], tier="quick", weight=1,
         functions=["Entry::is_exec (default)", "Entry::is_readonly (default + VfsEntry override)"], bounds="every u32 mode, Memfs/Stdfs/Vfs entries"),
    # ---- C13 VfsEntry accessors ---------------------------------------------------------------
    dict(name="c13_vfsentry_memfs_accessors", file="verif_entry", props=["C13"], tier="quick", weight=2,
         functions=["impl Entry for VfsEntry (Memfs arm) incl. trait default methods"], bounds="all flags/mode/uid/gid symbolic, concrete paths of pairwise different lengths"),
    dict(name="c13_vfsentry_stdfs_accessors", file="verif_entry", props=["C13"], tier="quick", weight=2,
         functions=["impl Entry for VfsEntry (Stdfs arm) incl. trait default methods"], bounds="all flags/mode symbolic"),
    dict(name="c13_follow_swaps_once", file="verif_entry", props=["C13"], tier="quick", weight=2,
         functions=["MemfsEntry::follow", "VfsEntry::follow", "VfsEntry::upcast"], bounds="all flags symbolic, follow argument symbolic, second follow(true)"),
    dict(name="c13_follow_swaps_once_stdfs", file="verif_entry", props=["C13"], tier="quick", weight=2,
         functions=["StdfsEntry::follow", "VfsEntry::follow"], bounds="all flags symbolic"),
    dict(name="c13_entry_witness", file="verif_entry", props=["C13"], tier="quick", weight=1, witness=True, functions=[], bounds="vacuity twin"),
]

STUBS = []  # filled as harnesses start to need them (listed in evidence)

LEVEL = {
    "C07": "model_checking",
    "C19": "model_checking",
    "C12": "model_checking",
    "C13": "proof",
    "C14": "model_checking",
    "C16": "model_checking",
    "C15": "model_checking",
    "C05": "model_checking",
    "C03": "model_checking",
    "C06": "model_checking",
    "C10": "model_checking",
    "C01": "model_checking",
    "C17": "model_checking",
    "C11": "model_checking",
    "C18": "model_checking",
}

MIRSYM_ASSUMPTIONS = [
    "rustc nightly's -Zunpretty=mir dump of /repo's current sources is the code that is executed (dev profile semantics, overflow checks on)",
    "lib/mirsym parser/interpreter: unknown statements or callees abort the check (exit 2), nothing is skipped silently",
    "z3 4.8.12 decides every query; the full query log is re-run through cvc5 1.0 and any disagreement or solver error makes the run inconclusive",
    "unwinding (cleanup) blocks are not executed",
]

ASSUMPTIONS = {
    "C13": MIRSYM_ASSUMPTIONS + [
        "wrapped backend methods are uninterpreted functions of (world, inner value, parameters); equality of results and of the world token is what 'transparent' means",
        "`<VfsEntry as Entry>::upcast` composed after follow() is modelled as the identity",
        "counterexamples are replayed by kani/c13_replay.rs (native differential fixture over all 52 + 18 methods on both backends)",
    ],
    "C14": MIRSYM_ASSUMPTIONS + [
        "std::path::{Path,PathBuf,Components,Component} are bounded sequence models (environment stubs), validated against real std natively",
        "inputs are component sequences (the image of every path string under std's tokeniser); spelling-only differences are outside the claim",
    ],
    "C11": MIRSYM_ASSUMPTIONS + [
        "&str is a symbolic char array of concrete length (each length / template its own batch); Vec<char>, Option, Result, VfsError construction are modelled structurally",
        "VfsEntry accessors (mode, is_dir, is_file, is_symlink) are symbolic inputs with not(is_dir and is_file)",
        "oracle: independent restatement of `[dfa]:[ugoa]+[-+=][rwx]+(,...)*` in lib/e2_jobs.py (chmod_oracle), each clause applied to the entry kind it targets",
        "Kani harnesses kani/verif_entry.rs build MemfsEntry/StdfsEntry by struct literal (files: None)",
        "outside the claim: tree traversal of recursive chmod/chown",
    ],
    "C15": MIRSYM_ASSUMPTIONS + [
        "text (str/String/Path) is a symbolic sequence of Unicode scalars with UTF-8 byte-length arithmetic; slicing panics exactly when the byte index is not a char boundary",
        "only sys::{trim_prefix,trim_suffix,has,has_prefix,has_suffix} are encoded; parse_paths under C18; the component-level helpers are outside the claim",
    ],
    "C03": MIRSYM_ASSUMPTIONS + [
        "Memfs operations are executed from their MIR with every rivia callee inlined automatically (lib/mirsym/rivia_index.py); std is modelled: Arc/RwLock/guards transparent (single thread), HashMap<PathBuf,_> as an association list with component-wise key equality decided by the solver, HashSet<String> as a list (iteration in insertion order), Box<dyn Write/ReadSeek> dispatched to MemfsFile, MemfsFile's Drop run at MIR drop terminators",
        "bounded: one call from a fixed small tree with symbolic arguments; histories longer than that, the traversal-based methods (copy, chmod/chown builders, entries, all_*) and concurrency are outside the claim",
    ],
    "C06": MIRSYM_ASSUMPTIONS + [
        "same execution model as C03 (Memfs operations from MIR, std containers modelled); reference = byte vector per file",
        "ASCII data (bytes == chars), <= 2 bytes per call, non-empty lines for the line helpers; Memfs only",
    ],
    "C10": MIRSYM_ASSUMPTIONS + [
        "same execution model as C03; expected values come from the abs/clean oracles on text",
        "Memfs only, fixed 2-level tree, link/target texts of <= 2 chars; follow() swap is decided by the Kani harness under C13",
    ],
    "C01": MIRSYM_ASSUMPTIONS + [
        "only the second sentence of the statement is decided: a single-target call (mkfile, mkdir_p, mkdir_m, write_all, append_all, remove, symlink, set_cwd, move_p) that reports failure leaves the observable tree unchanged; the comparison with a full reference filesystem over histories is outside the claim",
        "same execution model and bounds as C03",
    ],
    "C05": MIRSYM_ASSUMPTIONS + [
        "the current directory is a symbolic clean absolute text (Memfs: what the read guard's cwd() returns; Stdfs: what Stdfs::cwd() returns)",
        "path texts are ASCII (to_lowercase in trim_protocol is modelled for ASCII only); environment as for C17",
        "outside the claim: that every other VFS method resolves its arguments through abs (whole-Memfs statement)",
    ],
    "C17": MIRSYM_ASSUMPTIONS + [
        "environment stub: env::var(NAME) = uninterpreted functions of the name's characters (set?, value chars); values have a fixed length per job, contain no NUL and - for the obligations - no '$'",
        "text-level std::path / str / Peekable<Chars> models (validated against real std where applicable); rivia's take_while_p and PeekingTakeWhile::next run from MIR",
        "syntax the statement does not define (unbalanced braces) carries no obligation",
    ],
    "C18": MIRSYM_ASSUMPTIONS + [
        "environment stub: env::var(const NAME) is a symbolic Option<String> per name; str::split(':') is a symbolic list of bounded length with a symbolic emptiness flag per segment",
        "PathBuf::from, PathExt::mash, exists, str::parse::<u32> are uninterpreted functions (mash itself belongs to C15, not claimed)",
        "oracle: table of (variable, default) pairs written from the XDG Base Directory text in lib/e2_jobs.py",
    ],
    "C16": MIRSYM_ASSUMPTIONS + [
        "std path types and Vec<Component> are bounded sequence models (environment stubs), validated against real std natively",
        "inputs: clean absolute paths = RootDir followed by Normal components with symbolic names over a 3-element alphabet",
    ],
    "C07": [
        "Kani 0.68 / CBMC 6.11 (CaDiCaL) model of the dev profile (overflow checks on); rustc's codegen to goto-C is trusted",
        "oracle is the real std::io::Cursor<Vec<u8>> compiled into the same harness",
        "read/write handles are built by struct literal exactly as Memfs::read/write/append build them (pos 0 / seek(End(0)), fs: None)",
        "outside the claim: persistence of the buffer into Memfs' file map at flush/drop (goes through HashMap), Stdfs handles (std::fs::File)",
        "io::Result values are mem::forget-ed (io::Error drop glue is not part of the property)",
    ],
    "C19": [
        "Kani 0.68 / CBMC 6.11 model of the dev profile; unwinding assertions on",
        "two instantiations of the generic helpers: Copied<slice::Iter<u8>> and a default-method iterator (Cnt)",
        "mirsym job c19_text: StringExt::{size,trim_suffix} over text of <=4 scalars, to_bool over ASCII text of <=6 chars (to_lowercase modelled for ASCII only)",
        "outside the claim: defer on unwinding (Kani models panic as abort), to_bool on non-ASCII text",
    ],
    "C12": [
        "only the panic-class checks (arithmetic overflow, index/slice bounds, unwrap, explicit panic) of the units listed are decided",
        "outside the claim: every function not listed under functions_encoded, in particular Memfs methods on arbitrary strings and the byte-offset slicing path helpers",
    ],
}
